"""Engine X corpora for C05 (concrete deps), C06 (entraited traits), C07 (dependency inversion)."""

import random
from .progs import Program, PRELUDE, P, FnSpec, single_fn_program

PROBE = '''
pub struct Probe<T: ?Sized>(pub core::marker::PhantomData<T>);
pub trait ProbeNo { fn yes(&self) -> bool { false } }
impl<T: ?Sized> ProbeNo for Probe<T> {}
'''


def harness_head(name, unwind=4):
    return f'#[cfg(kani)]\n#[kani::proof]\n#[kani::unwind({unwind})]\nfn {name}() {{\n'


# ---------------------------------------------------------------------------
# C05
# ---------------------------------------------------------------------------

C05_SHAPES = {
    # name: (type decl, type expr used in the fn signature, constructor expr from `id`, field access on `deps`)
    'ident':   ('pub struct C0 { pub id: u32 }', 'C0', 'C0 { id: {id} }', 'deps.id'),
    'path':    ('pub mod inner { pub struct C1 { pub id: u32 } }', 'inner::C1', 'inner::C1 { id: {id} }', 'deps.id'),
    'generic': ('pub struct C2<X> { pub id: X }', 'C2<u32>', 'C2::<u32> { id: {id} }', 'deps.id'),
    'tuple':   ('', '(u32, u8)', '({id}, 7u8)', 'deps.0'),
    'array':   ('', '[u32; 1]', '[{id}]', 'deps[0]'),
    'selfpath': ('pub struct C3 { pub id: u32 }', 'self::C3', 'C3 { id: {id} }', 'deps.id'),
}


def c05_program(pid, shape, is_async, ret, explicit_static=False, explicit_lt=False):
    """explicit_lt: the dependency reference carries a named lifetime parameter of the fn (`fn leaf<'a>(deps: &'a C, ..) -> &'a u32`)"""
    decl, ty, ctor, acc = C05_SHAPES[shape]
    asy = 'async ' if is_async else ''
    aw = ' rt::YieldOnce(false).await;' if is_async else ''
    refty = "&'static " + ty if explicit_static else (("&'a " + ty) if explicit_lt else '&' + ty)
    lt_gen = "<'a>" if explicit_lt else ''
    if ret == 'owned':
        rty, rexpr = 'u64', f'rt::mix(rt::mix(rt::mix(5, {acc} as u64), q1 as u64), q0 as u64)'
    else:  # borrowed from deps
        rty, rexpr = ("&'static u32" if explicit_static else ("&'a u32" if explicit_lt else '&u32')), f'&{acc}'
    src = PRELUDE + PROBE + decl + '\n'
    src += (f'#[::entrait::entrait(pub Leaf)]\n'
            f'pub {asy}fn leaf{lt_gen}(deps: {refty}, q1: u32, q0: u32) -> {rty} {{\n'
            f'    rt::trace(1, 0, rt::addr(deps), 2, [q1 as u64, q0 as u64, 0, 0, 0, 0]);{aw}\n'
            f'    {rexpr}\n}}\n')
    # a downstream application adopting the trait by hand
    hand_body = ('rt::trace(7, 0, rt::addr(self), 2, [a as u64, b as u64, 0, 0, 0, 0]);'
                 + (' rt::YieldOnce(false).await;' if is_async else ''))
    if ret == 'owned':
        hand_ret = 'rt::mix(a as u64, b as u64)'
    else:
        hand_ret = '&self.id'
    recv = "&'static self" if explicit_static else ("&'a self" if explicit_lt else '&self')
    src += (f'pub struct HandApp {{ pub id: u32 }}\n'
            f'impl Leaf for HandApp {{\n    {asy}fn leaf{lt_gen}({recv}, a: u32, b: u32) -> {rty} {{ {hand_body} {hand_ret} }}\n}}\n'
            f'pub struct NoLeaf;\n'
            f'impl<T: Leaf> Probe<T> {{ pub fn yes(&self) -> bool {{ true }} }}\n')
    hs = []

    def call(e):
        return f'rt::block_on({e})' if is_async else e

    if explicit_static:
        mk = lambda v: f'let {v}: &\'static {ty} = Box::leak(Box::new({ctor.replace("{id}", "id")}));'
        mki = lambda v: f'let {v}: &\'static Impl<{ty}> = Box::leak(Box::new(Impl::new({ctor.replace("{id}", "id")})));'
        mkh = lambda v: f'let {v}: &\'static Impl<HandApp> = Box::leak(Box::new(Impl::new(HandApp {{ id }})));'
        r = lambda v: v
        d = lambda v: f'&**{v}'
    else:
        mk = lambda v: f'let {v} = {ctor.replace("{id}", "id")};'
        mki = lambda v: f'let {v} = Impl::new({ctor.replace("{id}", "id")});'
        mkh = lambda v: f'let {v} = Impl::new(HandApp {{ id }});'
        r = lambda v: f'&{v}'
        d = lambda v: f'&*{v}'
    cmp_ = (lambda x, y: f'assert!({x} == {y}, "result equals the direct call");') if ret == 'owned' else \
           (lambda x, y: f'assert!(rt::addr({x}) == rt::addr({y}), "same borrow returned"); assert!(*{x} == *{y});')
    rc, rapp, dapp = r("c"), r("app"), d("app")
    mkc, mkia, mkha = mk("c"), mki("app"), mkh("app")
    # 1. on C itself
    h = f'{pid}_h_self'
    src += harness_head(h)
    src += (f'    let id: u32 = kani::any(); let a: u32 = kani::any(); let b: u32 = kani::any();\n'
            f'    {mkc}\n    rt::reset();\n'
            f'    let via = {call(f"Leaf::leaf({rc}, a, b)")};\n'
            f'    assert!(rt::count() == 1); let e = rt::ev(0);\n'
            f'    assert!(e.fn_id == 1 && e.deps == rt::addr({rc}) && e.args[0] == a as u64 && e.args[1] == b as u64);\n'
            f'    rt::reset();\n    let dir = {call(f"leaf({rc}, a, b)")};\n    {cmp_("via", "dir")}\n'
            f'    kani::cover!(true);\n}}\n')
    hs.append(h)
    # 2. Impl<C> works out of the box
    h = f'{pid}_h_impl'
    src += harness_head(h)
    src += (f'    let id: u32 = kani::any(); let a: u32 = kani::any(); let b: u32 = kani::any();\n'
            f'    {mkia}\n    rt::reset();\n'
            f'    let via = {call(f"Leaf::leaf({rapp}, a, b)")};\n'
            f'    assert!(rt::count() == 1, "exactly one call"); let e = rt::ev(0);\n'
            f'    assert!(e.fn_id == 1, "the function is reached");\n'
            f'    assert!(e.deps == rt::addr({dapp}), "the inner C is the dependency");\n'
            f'    assert!(e.args[0] == a as u64 && e.args[1] == b as u64, "arguments in order");\n'
            f'    rt::reset();\n    let dir = {call(f"leaf({dapp}, a, b)")};\n    {cmp_("via", "dir")}\n'
            f'    kani::cover!(true);\n}}\n')
    hs.append(h)
    # 3. hand-written impl reached through Impl<HandApp>
    h = f'{pid}_h_hand'
    src += harness_head(h)
    src += (f'    let id: u32 = kani::any(); let a: u32 = kani::any(); let b: u32 = kani::any();\n'
            f'    {mkha}\n    rt::reset();\n'
            f'    let via = {call(f"Leaf::leaf({rapp}, a, b)")};\n'
            f'    assert!(rt::count() == 1, "exactly one call"); let e = rt::ev(0);\n'
            f'    assert!(e.fn_id == 7, "hand-written impl reached");\n'
            f'    assert!(e.deps == rt::addr({dapp}), "forwarded to T");\n'
            f'    assert!(e.args[0] == a as u64 && e.args[1] == b as u64, "arguments in order");\n'
            f'    rt::reset();\n    let dir = {call(f"Leaf::leaf({dapp}, a, b)")};\n    {cmp_("via", "dir")}\n'
            f'    // type-level witnesses (rustc-decided)\n'
            f'    assert!(Probe::<Impl<{ty}>>(core::marker::PhantomData).yes(), "Impl<C>: Leaf");\n'
            f'    assert!(Probe::<{ty}>(core::marker::PhantomData).yes(), "C: Leaf");\n'
            f'    assert!(Probe::<Impl<HandApp>>(core::marker::PhantomData).yes(), "Impl<HandApp>: Leaf");\n'
            f'    assert!(!Probe::<Impl<NoLeaf>>(core::marker::PhantomData).yes(), "Impl<X>: !Leaf for X without the trait");\n'
            f'    kani::cover!(true);\n}}\n')
    hs.append(h)
    desc = f'concrete deps shape={shape} async={is_async} ret={ret} static={explicit_static}' + (' named-lifetime' if explicit_lt else '')
    return Program(pid, desc, src, hs, ['C05'])


def c05_downstream_program(pid, vis, is_async):
    """README "Case 1": the leaf trait of a library module is adopted by an application that lives OUTSIDE that module"""
    asy = 'async ' if is_async else ''
    aw = ' rt::YieldOnce(false).await;' if is_async else ''
    src = PRELUDE + PROBE
    src += (f'pub mod lib_a {{\n    use crate::rt;\n    pub struct Config {{ pub id: u32 }}\n'
            f'    #[::entrait::entrait({vis} GetFoo)]\n'
            f'    pub {asy}fn get_foo(config: &Config, q1: u32, q0: u32) -> u64 {{\n'
            f'        rt::trace(1, 0, rt::addr(config), 2, [q1 as u64, q0 as u64, 0, 0, 0, 0]);{aw}\n'
            f'        rt::mix(rt::mix(rt::mix(5, config.id as u64), q1 as u64), q0 as u64)\n    }}\n}}\n')
    src += (f'pub mod downstream {{\n    use crate::rt;\n    pub struct DApp {{ pub id: u32 }}\n'
            f'    impl super::lib_a::GetFoo for DApp {{\n        {asy}fn get_foo(&self, a: u32, b: u32) -> u64 {{\n'
            f'            rt::trace(7, 0, rt::addr(self), 2, [a as u64, b as u64, 0, 0, 0, 0]);{aw}\n'
            f'            rt::mix(a as u64, b as u64)\n        }}\n    }}\n}}\n')
    src += 'impl<T: lib_a::GetFoo> Probe<T> { pub fn yes(&self) -> bool { true } }\n'

    def call(e):
        return f'rt::block_on({e})' if is_async else e
    hs = []
    h = f'{pid}_h_downstream'
    src += harness_head(h)
    src += (f'    use lib_a::GetFoo;\n'
            f'    let id: u32 = kani::any(); let a: u32 = kani::any(); let b: u32 = kani::any();\n'
            f'    let app = Impl::new(downstream::DApp {{ id }});\n    rt::reset();\n'
            f'    let via = {call("app.get_foo(a, b)")};\n'
            f'    assert!(rt::count() == 1, "exactly one call"); let e = rt::ev(0);\n'
            f'    assert!(e.fn_id == 7, "hand-written impl of the downstream application reached");\n'
            f'    assert!(e.deps == rt::addr(&*app), "forwarded to T");\n'
            f'    assert!(e.args[0] == a as u64 && e.args[1] == b as u64, "arguments in order");\n'
            f'    assert!(via == rt::mix(a as u64, b as u64));\n'
            f'    let lib = Impl::new(lib_a::Config {{ id }});\n    rt::reset();\n'
            f'    let via = {call("lib.get_foo(a, b)")};\n'
            f'    assert!(rt::count() == 1 && rt::ev(0).fn_id == 1 && rt::ev(0).deps == rt::addr(&*lib), "Impl<Config> works out of the box");\n'
            f'    rt::reset();\n    let dir = {call("lib_a::get_foo(&*lib, a, b)")};\n    assert!(via == dir, "result equals the direct call");\n'
            f'    assert!(Probe::<Impl<downstream::DApp>>(core::marker::PhantomData).yes(), "Impl<DApp>: GetFoo");\n'
            f'    kani::cover!(true);\n}}\n')
    hs.append(h)
    return Program(pid, f'concrete deps adopted downstream (other module) trait-vis={vis} async={is_async}', src, hs, ['C05'])


def c05_extra_programs(k0):
    """concrete dependencies written as qualified paths next to the fn's own generics, and unsized concrete dependencies
    (`&[u32]`, `&dyn Trait`): the leaf trait carries the fn's other generics; `Impl<T>` forwards for every T with the trait"""
    progs = []
    k = k0
    # 1. qualified path + type / const generics + where clause
    for path in ('self::inner::C1', 'crate::PIDMOD::inner::C1'):
        k += 1
        pid = f'c05_{k:03d}'
        src = PRELUDE + PROBE + 'pub mod inner { pub struct C1 { pub id: u32 } }\n'
        src += (f'#[::entrait::entrait(pub Label)]\n'
                f'pub fn label<T: Copy + Into<u64>, const K: usize>(deps: &{path.replace("PIDMOD", pid)}, t: T, a: [u8; K]) -> u64 where T: Send {{\n'
                f'    rt::trace(1, 0, rt::addr(deps), 2, [t.into(), K as u64, 0, 0, 0, 0]);\n'
                f'    rt::mix(rt::mix(deps.id as u64, t.into()), a.len() as u64)\n}}\n'
                f'pub struct HandApp {{ pub id: u32 }}\n'
                f'impl<T: Copy + Into<u64> + Send, const K: usize> Label<T, K> for HandApp {{\n'
                f'    fn label(&self, t: T, a: [u8; K]) -> u64 {{ rt::trace(7, 0, rt::addr(self), 2, [t.into(), K as u64, 0, 0, 0, 0]); rt::mix(t.into(), K as u64) }}\n}}\n'
                f'pub fn needs<A: Label<u16, 2>>(a: &A, t: u16) -> u64 {{ a.label(t, [1u8, 2u8]) }}\n')
        h = f'{pid}_h_generic'
        src += harness_head(h)
        src += ('    let id: u32 = kani::any(); let t: u16 = kani::any();\n'
                '    let c = inner::C1 { id };\n    rt::reset();\n'
                '    let via = needs(&c, t);\n'
                '    assert!(rt::count() == 1 && rt::ev(0).fn_id == 1 && rt::ev(0).deps == rt::addr(&c), "C itself: the function, with C as the dependency");\n'
                '    assert!(rt::ev(0).args[0] == t as u64 && rt::ev(0).args[1] == 2, "arguments / const argument");\n'
                '    rt::reset();\n    let dir = label(&c, t, [1u8, 2u8]);\n    assert!(via == dir, "result equals the direct call");\n'
                '    let app = Impl::new(inner::C1 { id });\n    rt::reset();\n    let via2 = needs(&app, t);\n'
                '    assert!(rt::count() == 1 && rt::ev(0).fn_id == 1 && rt::ev(0).deps == rt::addr(&*app), "Impl<C> forwards to C");\n'
                '    assert!(via2 == dir);\n'
                '    let happ = Impl::new(HandApp { id });\n    rt::reset();\n    let via3 = needs(&happ, t);\n'
                '    assert!(rt::count() == 1 && rt::ev(0).fn_id == 7 && rt::ev(0).deps == rt::addr(&*happ), "hand-written impl reached through Impl<HandApp>");\n'
                '    assert!(via3 == rt::mix(t as u64, 2));\n'
                '    kani::cover!(true);\n}\n')
        progs.append(Program(pid, f'concrete deps as qualified path `{path.split("::")[0]}::..` with type / const generics and a where clause', src, [h], ['C05']))
    # 2. unsized concrete dependencies
    k += 1
    pid = f'c05_{k:03d}'
    src = PRELUDE + PROBE + '''
pub trait Greeter { fn hi(&self) -> u32; }
pub struct G0 { pub id: u32 }
impl Greeter for G0 { fn hi(&self) -> u32 { self.id } }
#[::entrait::entrait(pub Total)]
pub fn total(deps: &[u32], q1: u32) -> u64 {
    rt::trace(1, 0, rt::addr(deps), 1, [q1 as u64, 0, 0, 0, 0, 0]);
    rt::mix(deps.len() as u64, q1 as u64)
}
#[::entrait::entrait(pub Describe)]
pub fn describe(deps: &dyn Greeter, q1: u32) -> u64 {
    rt::trace(2, 0, rt::addr(deps), 1, [q1 as u64, 0, 0, 0, 0, 0]);
    rt::mix(deps.hi() as u64, q1 as u64)
}
pub struct HandApp { pub id: u32 }
impl Total for HandApp { fn total(&self, a: u32) -> u64 { rt::trace(7, 0, rt::addr(self), 1, [a as u64, 0, 0, 0, 0, 0]); rt::mix(9, a as u64) } }
impl Describe for HandApp { fn describe(&self, a: u32) -> u64 { rt::trace(8, 0, rt::addr(self), 1, [a as u64, 0, 0, 0, 0, 0]); rt::mix(10, a as u64) } }
pub fn needs_total<A: Total + ?Sized>(a: &A, q: u32) -> u64 { a.total(q) }
pub fn needs_describe<A: Describe + ?Sized>(a: &A, q: u32) -> u64 { a.describe(q) }
'''
    h = f'{pid}_h_unsized'
    src += harness_head(h)
    src += ('    let id: u32 = kani::any(); let q: u32 = kani::any();\n'
            '    let arr = [id, 1u32, 2u32];\n    rt::reset();\n'
            '    let via = needs_total(&arr[..], q);\n'
            '    assert!(rt::count() == 1 && rt::ev(0).fn_id == 1 && rt::ev(0).deps == rt::addr(&arr[..]) && rt::ev(0).args[0] == q as u64, "[u32] itself");\n'
            '    assert!(via == total(&arr[..], q));\n'
            '    let g = G0 { id };\n    rt::reset();\n'
            '    let via = needs_describe(&g as &dyn Greeter, q);\n'
            '    assert!(rt::count() == 1 && rt::ev(0).fn_id == 2 && rt::ev(0).args[0] == q as u64, "dyn Greeter itself");\n'
            '    assert!(via == describe(&g, q));\n'
            '    let happ = Impl::new(HandApp { id });\n    rt::reset();\n'
            '    let v7 = needs_total(&happ, q);\n'
            '    assert!(rt::count() == 1 && rt::ev(0).fn_id == 7 && rt::ev(0).deps == rt::addr(&*happ), "Impl<HandApp>: Total forwards to the hand-written impl");\n'
            '    rt::reset();\n    let v8 = needs_describe(&happ, q);\n'
            '    assert!(rt::count() == 1 && rt::ev(0).fn_id == 8 && rt::ev(0).deps == rt::addr(&*happ), "Impl<HandApp>: Describe forwards to the hand-written impl");\n'
            '    assert!(v7 == rt::mix(9, q as u64) && v8 == rt::mix(10, q as u64));\n'
            '    kani::cover!(true);\n}\n')
    progs.append(Program(pid, 'unsized concrete dependencies (&[u32], &dyn Trait) with hand-written adoption behind Impl<App>', src, [h], ['C05']))
    return progs, k


def c05_corpus(tier, seed):
    progs = []
    k = 0
    for vis in ('pub', 'pub(crate)'):
        for is_async in (False, True):
            k += 1
            progs.append(c05_downstream_program(f'c05_{k:03d}', vis, is_async))
    for shape in C05_SHAPES:
        for is_async in (False, True):
            for ret in ('owned', 'borrowed'):
                if tier == 'quick' and shape in ('array', 'selfpath') and (is_async or ret == 'borrowed'):
                    continue
                k += 1
                progs.append(c05_program(f'c05_{k:03d}', shape, is_async, ret))
    for is_async in (False, True):
        for ret in ('owned', 'borrowed'):
            k += 1
            progs.append(c05_program(f'c05_{k:03d}', 'ident', is_async, ret, explicit_static=True))
    more, k = c05_extra_programs(k)
    progs += more
    # "reference with explicit lifetime": a named lifetime parameter of the fn on the dependency reference
    for shape, is_async, ret in (('ident', False, 'borrowed'), ('ident', False, 'owned'), ('generic', False, 'borrowed'), ('ident', True, 'borrowed')):
        k += 1
        progs.append(c05_program(f'c05_{k:03d}', shape, is_async, ret, explicit_lt=True))
    return progs


# ---------------------------------------------------------------------------
# C06
# ---------------------------------------------------------------------------

def c06_program(pid, sel, n_methods, is_async, async_trait, generic_trait=False, generic_method=False,
                supertrait='', borrowed=False, where_clause=False, maybe_send=False, scope_imports=False):
    """sel in '', 'Self', 'ref', 'Borrow'"""
    dyn = sel in ('ref', 'Borrow')
    opts = []
    if sel:
        opts.append(f'delegate_by = {sel}')
    if maybe_send:
        opts.append('?Send')
    at = '#[::async_trait::async_trait]\n' if async_trait else ''
    asy = 'async ' if is_async else ''
    tg = '<X: Copy + Into<u64> + Send + Sync + \'static>' if generic_trait else ''
    targs = '<u16>' if generic_trait else ''
    sup = f': {supertrait}' if supertrait else ''
    wc = ' where Self: Sized' if False else ''
    methods = []  # (name, fn_id, sig_params, arg names, enc exprs, generic)
    for i in range(n_methods):
        methods.append((f'm{i + 1}', i + 1))
    src = PRELUDE + PROBE
    if scope_imports:
        # the expansion must mean the same whatever the invoking scope imports
        src += 'use core::borrow::Borrow;\nuse core::convert::AsRef;\n'
    src += f'#[::entrait::entrait({", ".join(opts)})]\n{at}pub trait Tr{tg}{sup}{wc} {{\n'
    xparam = ', x: X' if generic_trait else ''
    for name, fid in methods:
        src += f'    {asy}fn {name}(&self, q1: u32, q0: u32{xparam}) -> u64;\n'
    if generic_method:
        src += f'    {asy}fn gm<Y: Into<u64> + Send>(&self, a: u32, y: Y) -> u64;\n'
    if borrowed:
        src += f'    fn br<\'a>(&\'a self, k: &\'a u32) -> &\'a u32;\n'
    src += '}\n'
    aw = ' rt::YieldOnce(false).await;' if is_async else ''
    xenc = 'x.into()' if generic_trait else '0'

    def provider(tn, target):
        s = f'pub struct {tn} {{ pub id: u32, pub cell: u32 }}\n{at}impl{tg} Tr{"<X>" if generic_trait else ""} for {tn} {{\n'
        for name, fid in methods:
            s += (f'    {asy}fn {name}(&self, q1: u32, q0: u32{xparam}) -> u64 {{\n'
                  f'        rt::trace({fid}, {target}, rt::addr(self), 3, [q1 as u64, q0 as u64, {xenc}, 0, 0, 0]);{aw}\n'
                  f'        rt::mix(rt::mix(rt::mix({fid * 10 + target}, self.id as u64), q1 as u64), q0 as u64)\n    }}\n')
        if generic_method:
            s += (f'    {asy}fn gm<Y: Into<u64> + Send>(&self, a: u32, y: Y) -> u64 {{\n'
                  f'        let y: u64 = y.into();\n'
                  f'        rt::trace(20, {target}, rt::addr(self), 2, [a as u64, y, 0, 0, 0, 0]);{aw}\n'
                  f'        rt::mix(rt::mix({target}, a as u64), y)\n    }}\n')
        if borrowed:
            s += (f'    fn br<\'a>(&\'a self, k: &\'a u32) -> &\'a u32 {{\n'
                  f'        rt::trace(30, {target}, rt::addr(self), 1, [*k as u64, 0, 0, 0, 0, 0]);\n'
                  f'        if *k & 1 == 0 {{ &self.cell }} else {{ k }}\n    }}\n')
        s += '}\n'
        return s

    src += provider('PA', 1) + provider('PB', 2)
    dynty = f'dyn Tr{targs}' + (' + Send + Sync' if False else '')
    if dyn:
        tr = 'AsRef' if sel == 'ref' else 'core::borrow::Borrow'
        meth = 'as_ref' if sel == 'ref' else 'borrow'
        dsync = ' + Sync' if True else ''
        src += (f'pub struct AppA {{ pub pa: PA, pub pb: PB }}\n'
                f'impl {tr}<dyn Tr{targs}> for AppA {{ fn {meth}(&self) -> &(dyn Tr{targs} + \'static) {{ &self.pa }} }}\n'
                f'pub struct AppB {{ pub pa: PA, pub pb: PB }}\n'
                f'impl {tr}<dyn Tr{targs}> for AppB {{ fn {meth}(&self) -> &(dyn Tr{targs} + \'static) {{ &self.pb }} }}\n')
    src += 'pub struct NoProv;\n'
    src += f'impl<T: Tr{targs}> Probe<T> {{ pub fn yes(&self) -> bool {{ true }} }}\n'
    hs = []

    def call(e):
        return f'rt::block_on({e})' if is_async else e

    xarg = ', x' if generic_trait else ''
    tfish = '<u16>::' if generic_trait else ''
    xdecl = ' let x: u16 = kani::any();' if generic_trait else ''
    xexp = 'x as u64' if generic_trait else '0'
    apps = []
    if dyn:
        apps = [('AppA', 'AppA { pa: PA { id: ida, cell: ca }, pb: PB { id: idb, cell: cb } }', '&app.pa', 1),
                ('AppB', 'AppB { pa: PA { id: ida, cell: ca }, pb: PB { id: idb, cell: cb } }', '&app.pb', 2)]
    else:
        apps = [('PA', 'PA { id: ida, cell: ca }', '&*app', 1), ('PB', 'PB { id: idb, cell: cb }', '&*app', 2)]
    for appty, mk, prov, target in apps:
        for name, fid in methods:
            h = f'{pid}_h_{appty}_{name}'
            src += harness_head(h)
            src += (f'    let ida: u32 = kani::any(); let idb: u32 = kani::any(); let ca: u32 = kani::any(); let cb: u32 = kani::any();\n'
                    f'    let a: u32 = kani::any(); let b: u32 = kani::any();{xdecl}\n'
                    f'    let app = Impl::new({mk});\n    rt::reset();\n'
                    f'    let via = {call(f"app.{name}(a, b{xarg})")};\n'
                    f'    assert!(rt::count() == 1, "forwarded exactly once"); let e = rt::ev(0);\n'
                    f'    assert!(e.fn_id == {fid}, "same method on the provider");\n'
                    f'    assert!(e.target == {target}, "selected provider");\n'
                    f'    assert!(e.deps == rt::addr({prov}), "provider identity");\n'
                    f'    assert!(e.args[0] == a as u64, "argument 0 in order"); assert!(e.args[1] == b as u64, "argument 1 in order"); assert!(e.args[2] == {xexp}, "argument 2 in order");\n'
                    f'    rt::reset();\n    let dir = {call(f"Tr::{name}({prov}, a, b{xarg})")};\n'
                    f'    assert!(via == dir, "result unchanged");\n    kani::cover!(true);\n}}\n')
            hs.append(h)
        if generic_method:
            h = f'{pid}_h_{appty}_gm'
            src += harness_head(h)
            src += (f'    let ida: u32 = kani::any(); let idb: u32 = kani::any(); let ca: u32 = kani::any(); let cb: u32 = kani::any();\n'
                    f'    let a: u32 = kani::any(); let y: u16 = kani::any();\n'
                    f'    let app = Impl::new({mk});\n    rt::reset();\n'
                    f'    let via = {call(f"Tr::{tfish}gm(&app, a, y)")};\n'
                    f'    assert!(rt::count() == 1); let e = rt::ev(0);\n'
                    f'    assert!(e.fn_id == 20 && e.target == {target} && e.deps == rt::addr({prov}));\n'
                    f'    assert!(e.args[0] == a as u64, "argument 0 in order"); assert!(e.args[1] == y as u64, "argument 1 in order");\n'
                    f'    rt::reset();\n    let dir = {call(f"Tr::{tfish}gm({prov}, a, y)")};\n    assert!(via == dir);\n    kani::cover!(true);\n}}\n')
            hs.append(h)
        if borrowed:
            h = f'{pid}_h_{appty}_br'
            src += harness_head(h)
            src += (f'    let ida: u32 = kani::any(); let idb: u32 = kani::any(); let ca: u32 = kani::any(); let cb: u32 = kani::any();\n'
                    f'    let k: u32 = kani::any();\n'
                    f'    let app = Impl::new({mk});\n    rt::reset();\n'
                    f'    let via: &u32 = Tr::{tfish}br(&app, &k);\n'
                    f'    assert!(rt::count() == 1); let e = rt::ev(0);\n'
                    f'    assert!(e.fn_id == 30 && e.target == {target} && e.deps == rt::addr({prov}) && e.args[0] == k as u64);\n'
                    f'    rt::reset();\n    let dir: &u32 = Tr::{tfish}br({prov}, &k);\n'
                    f'    assert!(rt::addr(via) == rt::addr(dir), "same borrow returned");\n    kani::cover!(true);\n}}\n')
            hs.append(h)
    # availability witnesses
    h = f'{pid}_h_probe'
    src += harness_head(h)
    if dyn:
        src += ('    assert!(Probe::<Impl<AppA>>(core::marker::PhantomData).yes(), "provider via ref/Borrow");\n'
                '    assert!(Probe::<Impl<AppB>>(core::marker::PhantomData).yes());\n'
                '    assert!(!Probe::<Impl<PA>>(core::marker::PhantomData).yes(), "T: Trait alone is not the selected way");\n'
                '    assert!(!Probe::<Impl<NoProv>>(core::marker::PhantomData).yes());\n')
    else:
        src += ('    assert!(Probe::<Impl<PA>>(core::marker::PhantomData).yes(), "T: Trait");\n'
                '    assert!(Probe::<Impl<PB>>(core::marker::PhantomData).yes());\n'
                '    assert!(!Probe::<Impl<NoProv>>(core::marker::PhantomData).yes(), "no provider, no impl");\n')
    src += '    kani::cover!(true);\n}\n'
    hs.append(h)
    desc = (f'trait sel={sel or "default"} methods={n_methods} async={is_async} async_trait={async_trait} '
            f'generic_trait={generic_trait} generic_method={generic_method} super={supertrait!r} borrowed={borrowed} ?Send={maybe_send} imports={scope_imports}')
    return Program(pid, desc, src, hs, ['C06'])


def c06_corpus(tier, seed):
    rnd = random.Random(seed)
    progs = []
    k = 0

    def pid():
        nonlocal k
        k += 1
        return f'c06_{k:03d}'
    for sel in ('', 'ref', 'Borrow'):
        dyn = sel in ('ref', 'Borrow')
        progs.append(c06_program(pid(), sel, 2, False, False, borrowed=True))
        progs.append(c06_program(pid(), sel, 3, False, False, supertrait="'static", scope_imports=True))
        if dyn:
            progs.append(c06_program(pid(), sel, 2, True, True, supertrait="Sync + 'static"))
        else:
            progs.append(c06_program(pid(), sel, 2, True, False))
            progs.append(c06_program(pid(), sel, 2, True, True))
            progs.append(c06_program(pid(), sel, 1, False, False, generic_trait=True, generic_method=True))
            progs.append(c06_program(pid(), sel, 2, True, False, generic_trait=True, maybe_send=True))
    if tier != 'quick':
        for _ in range(30):
            sel = rnd.choice(['', 'ref', 'Borrow'])
            dyn = sel in ('ref', 'Borrow')
            is_async = rnd.random() < 0.5
            at = is_async and (dyn or rnd.random() < 0.5)
            progs.append(c06_program(pid(), sel, rnd.randint(1, 3), is_async, at,
                                     generic_trait=(not dyn and rnd.random() < 0.4),
                                     generic_method=(not dyn and not at and rnd.random() < 0.4),
                                     supertrait=rnd.choice(['', "'static", "Sync + 'static"]) if not (dyn and is_async) else "Sync + 'static",
                                     borrowed=(not is_async and rnd.random() < 0.5),
                                     maybe_send=(is_async and not dyn and not at and rnd.random() < 0.3)))
    return progs


# ---------------------------------------------------------------------------
# C07
# ---------------------------------------------------------------------------

def c07_program(pid, dynamic, n_methods, is_async, async_trait, impl_deps, same_sig=True, path_targets=False, at_path='::async_trait::async_trait'):
    """impl_deps: list (per method) of deps declaration kind for the implementation fn:
       'gen' (<D>(deps: &D)), 'id' (deps: &impl HasId), 'idtag' (deps: &(impl HasId + HasTag)), 'ent' (deps: &impl Baz, an entraited fn)"""
    at = f'#[{at_path}]\n' if async_trait else ''
    asy = 'async ' if is_async else ''
    aw = ' rt::YieldOnce(false).await;' if is_async else ''
    src = PRELUDE + PROBE
    if at_path.startswith('fw::'):
        # the attribute reached through a re-export (framework crates do this): still recognised by its last path segment
        src += 'pub mod fw { pub use ::async_trait::async_trait; }\n'
    src += ('#[::entrait::entrait(pub Baz)]\npub fn baz<D>(deps: &D, q: u32) -> u64 { rt::mix(77, q as u64) }\n')
    # dynamic: False (static, custom delegation trait) | True / 'ref' (AsRef) | 'Borrow'
    borrow = dynamic == 'Borrow'
    sel = ('delegate_by = Borrow' if borrow else 'delegate_by = ref') if dynamic else 'delegate_by = DelegateRepo'
    src += f'#[::entrait::entrait(pub RepoImpl, {sel})]\n{at}pub trait Repo {{\n'
    for i in range(n_methods):
        src += f'    {asy}fn m{i + 1}(&self, q1: u32, q0: u32) -> u64;\n'
    src += '}\n'

    if path_targets:
        # two target types with the same last path segment; the other one is imported by its bare name
        src += 'pub mod ta { pub struct Backend; }\npub mod tb { pub struct Backend; }\nuse tb::Backend;\n'
    TA, TB = ('ta::Backend', 'tb::Backend') if path_targets else ('TA', 'TB')

    def block(tn, target):
        decl = '' if path_targets else f'pub struct {tn};\n'
        s = f'{decl}#[::entrait::entrait{"(ref)" if dynamic else ""}]\n{at}impl RepoImpl for {tn} {{\n'
        for i in range(n_methods):
            dk = impl_deps[i % len(impl_deps)]
            if dk == 'gen':
                gen, dp, use = '<D>', 'deps: &D', ''
            elif dk == 'id':
                gen, dp, use = '', 'deps: &impl HasId', ' let r = rt::mix(r, deps.id() as u64);'
            elif dk == 'idtag':
                gen, dp, use = '', 'deps: &(impl HasId + HasTag)', ' let r = rt::mix(r, deps.id() as u64); let r = rt::mix(r, deps.tag() as u64);'
            elif dk == 'twolast':
                # two different traits with the same last path segment: both stay required
                gen, dp, use = '', 'deps: &(impl la::Look + lb::Look)', ' let r = rt::mix(r, la::Look::look(deps) as u64); let r = rt::mix(r, lb::Look::look(deps) as u64);'
            else:
                gen, dp, use = '', 'deps: &impl Baz', ' let r = rt::mix(r, deps.baz(q1));'
            s += (f'    pub {asy}fn m{i + 1}{gen}({dp}, q1: u32, q0: u32) -> u64 {{\n'
                  f'        rt::trace({i + 1}, {target}, rt::addr(deps), 2, [q1 as u64, q0 as u64, 0, 0, 0, 0]);{aw}\n'
                  f'        let r = {(i + 1) * 10 + target}u64;{use}\n'
                  f'        rt::mix(rt::mix(r, q1 as u64), q0 as u64)\n    }}\n')
        s += '}\n'
        return s
    if 'twolast' in impl_deps:
        src += ('pub mod la { pub trait Look { fn look(&self) -> u32; } }\npub mod lb { pub trait Look { fn look(&self) -> u32; } }\n'
                'impl la::Look for Impl<AppA> { fn look(&self) -> u32 { 3 } }\nimpl lb::Look for Impl<AppA> { fn look(&self) -> u32 { 4 } }\n'
                'impl la::Look for Impl<AppB> { fn look(&self) -> u32 { 5 } }\nimpl lb::Look for Impl<AppB> { fn look(&self) -> u32 { 6 } }\n')
    src += block(TA, 1) + block(TB, 2)
    if dynamic:
        dsync = ' + Sync' if is_async else ''
        for app, tgt in (('AppA', TA), ('AppB', TB)):
            # the application offers BOTH conversions; the one the attribute did not select leads to the other target
            sel_tr, sel_m, dec_tr, dec_m = (('core::borrow::Borrow', 'borrow', 'AsRef', 'as_ref') if borrow else ('AsRef', 'as_ref', 'core::borrow::Borrow', 'borrow'))
            src += (f'pub struct {app} {{ pub id: u32, pub tag: u32, pub repo: Box<dyn RepoImpl<{app}> + Send + Sync>, pub decoy: Box<dyn RepoImpl<{app}> + Send + Sync> }}\n'
                    f'impl {sel_tr}<dyn RepoImpl<{app}>{dsync}> for {app} {{ fn {sel_m}(&self) -> &(dyn RepoImpl<{app}>{dsync} + \'static) {{ self.repo.as_ref() }} }}\n'
                    f'impl {dec_tr}<dyn RepoImpl<{app}>{dsync}> for {app} {{ fn {dec_m}(&self) -> &(dyn RepoImpl<{app}>{dsync} + \'static) {{ self.decoy.as_ref() }} }}\n'
                    f'impl HasId for Impl<{app}> {{ fn id(&self) -> u32 {{ self.id }} }}\n'
                    f'impl HasTag for Impl<{app}> {{ fn tag(&self) -> u32 {{ self.tag }} }}\n')
        mk = {'AppA': f'AppA {{ id, tag, repo: Box::new({TA}), decoy: Box::new({TB}) }}', 'AppB': f'AppB {{ id, tag, repo: Box::new({TB}), decoy: Box::new({TA}) }}'}
    else:
        for app, tgt in (('AppA', TA), ('AppB', TB)):
            src += (f'pub struct {app} {{ pub id: u32, pub tag: u32 }}\n'
                    f'impl DelegateRepo<Self> for {app} {{ type Target = {tgt}; }}\n'
                    f'impl HasId for Impl<{app}> {{ fn id(&self) -> u32 {{ self.id }} }}\n'
                    f'impl HasTag for Impl<{app}> {{ fn tag(&self) -> u32 {{ self.tag }} }}\n')
        mk = {'AppA': 'AppA { id, tag }', 'AppB': 'AppB { id, tag }'}
    hs = []

    def call(e):
        return f'rt::block_on({e})' if is_async else e
    for app, tn, target in (('AppA', TA, 1), ('AppB', TB, 2)):
        for i in range(n_methods):
            h = f'{pid}_h_{app}_m{i + 1}'
            src += harness_head(h)
            src += (f'    let id: u32 = kani::any(); let tag: u32 = kani::any(); let a: u32 = kani::any(); let b: u32 = kani::any();\n'
                    f'    let app = Impl::new({mk[app]});\n    rt::reset();\n'
                    f'    let via = {call(f"app.m{i + 1}(a, b)")};\n'
                    f'    assert!(rt::count() == 1, "exactly one call"); let e = rt::ev(0);\n'
                    f'    assert!(e.target == {target}, "selected implementation block, never the other target");\n'
                    f'    assert!(e.fn_id == {i + 1}, "corresponding function");\n'
                    f'    assert!(e.deps == rt::addr(&app), "the same &Impl<T> is the dependency");\n'
                    f'    assert!(e.args[0] == a as u64, "argument 0 in order"); assert!(e.args[1] == b as u64, "argument 1 in order");\n'
                    f'    rt::reset();\n    let dir = {call(f"{tn}::m{i + 1}(&app, a, b)")};\n'
                    f'    assert!(via == dir, "result unchanged");\n    kani::cover!(true);\n}}\n')
            hs.append(h)
    desc = ('re-exported async_trait; ' if at_path.startswith('fw::') else '') + f'inversion {("dynamic-" + ("Borrow" if borrow else "ref")) if dynamic else "static"} methods={n_methods} async={is_async} async_trait={async_trait} impl_deps={impl_deps} path_targets={path_targets}'
    return Program(pid, desc, src, hs, ['C07'])


def c07_corpus(tier, seed):
    rnd = random.Random(seed)
    progs = []
    k = 0

    def pid():
        nonlocal k
        k += 1
        return f'c07_{k:03d}'
    progs.append(c07_program(pid(), True, 2, True, True, ['gen', 'id'], at_path='fw::async_trait'))
    progs.append(c07_program(pid(), 'Borrow', 2, False, False, ['gen', 'id']))
    progs.append(c07_program(pid(), 'Borrow', 1, True, True, ['ent']))
    progs.append(c07_program(pid(), False, 2, False, False, ['twolast', 'id']))
    progs.append(c07_program(pid(), True, 1, False, False, ['twolast']))
    for dynamic in (False, True):
        progs.append(c07_program(pid(), dynamic, 2, False, False, ['gen', 'id']))
        progs.append(c07_program(pid(), dynamic, 3, False, False, ['idtag', 'ent', 'gen']))
        progs.append(c07_program(pid(), dynamic, 1, False, False, ['ent']))
        progs.append(c07_program(pid(), dynamic, 2, False, False, ['gen', 'id'], path_targets=True))
        if dynamic:
            progs.append(c07_program(pid(), dynamic, 2, True, True, ['gen', 'id']))
        else:
            progs.append(c07_program(pid(), dynamic, 2, True, False, ['gen', 'id']))
            progs.append(c07_program(pid(), dynamic, 2, True, True, ['id', 'ent']))
    if tier != 'quick':
        for _ in range(24):
            dynamic = rnd.random() < 0.5
            is_async = rnd.random() < 0.5
            at = is_async and (dynamic or rnd.random() < 0.5)
            n = rnd.randint(1, 3)
            deps = [rnd.choice(['gen', 'id', 'idtag', 'ent']) for _ in range(n)]
            progs.append(c07_program(pid(), dynamic, n, is_async, at, deps))
    return progs
