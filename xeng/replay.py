"""Engine X: counterexample -> concrete values -> native replay (dev and release)."""

import os, re, shutil, subprocess, json
from . import run

KANI_SHIM = r'''// native stand-in for the `kani` crate: replays the byte vectors CBMC produced
#![allow(dead_code, unused_macros)]
use std::cell::RefCell;
use std::collections::VecDeque;
thread_local! { static VALS: RefCell<VecDeque<Vec<u8>>> = RefCell::new(VecDeque::new()); }
pub fn set(v: Vec<Vec<u8>>) { VALS.with(|q| *q.borrow_mut() = v.into_iter().collect()); }
pub trait Arb: Sized { fn from_bytes(b: &[u8]) -> Self; }
macro_rules! arb_int { ($($t:ty),*) => { $(impl Arb for $t { fn from_bytes(b: &[u8]) -> Self {
    let mut a = [0u8; core::mem::size_of::<$t>()]; a.copy_from_slice(b); <$t>::from_le_bytes(a) } })* } }
arb_int!(u8, u16, u32, u64, usize, i8, i16, i32, i64, isize);
impl Arb for bool { fn from_bytes(b: &[u8]) -> Self { b[0] != 0 } }
pub fn any<T: Arb>() -> T {
    VALS.with(|q| { let v = q.borrow_mut().pop_front().expect("ran out of concrete values"); T::from_bytes(&v) })
}
pub fn assume(c: bool) { assert!(c, "assumption violated during replay"); }
macro_rules! cover { ($($t:tt)*) => {}; }
pub(crate) use cover;
'''


def concrete_values(crate_dir, target_dir, harness, extra=()):
    rc, out, dt = run.run_kani(crate_dir, target_dir, harness=harness, jobs=1,
                               extra=['-Z', 'concrete-playback', '--concrete-playback=print'] + list(extra))
    # the printed unit test contains   let concrete_vals: Vec<Vec<u8>> = vec![ // 0\n vec![0, 0],\n ... ];
    m = re.search(r'let concrete_vals: Vec<Vec<u8>> = vec!\[(.*?)\n\s*\];', out, flags=re.S)
    if not m:
        return None, out
    vals = []
    for vm in re.finditer(r'vec!\[([0-9,\s]*)\]', m.group(1)):
        txt = vm.group(1).strip()
        vals.append([int(x) for x in txt.split(',') if x.strip()] if txt else [])
    return vals, out


def nativize(source):
    """strip Kani attributes so that the harness is an ordinary pub fn"""
    out = []
    after_proof = False
    for line in source.splitlines():
        s = line.strip()
        if s in ('#[cfg(kani)]', '#[kani::proof]') or s.startswith('#[kani::unwind') or s.startswith('#[kani::stub'):
            after_proof = after_proof or s == '#[kani::proof]'
            continue
        if after_proof and line.startswith('fn '):
            line = 'pub ' + line
        if s:
            after_proof = False
        out.append(line)
    src = '\n'.join(out) + '\n'
    src = src.replace('#![allow(unused, non_snake_case)]\n', '#![allow(unused, non_snake_case)]\nuse crate::kani;\n', 1)
    src = re.sub(r'^fn (\w+_h\w*)\(\)', r'pub fn \1()', src, flags=re.M)
    if 'fn counting_alloc(' in src:
        # under Kani std::alloc::alloc is stubbed by the counter; natively the same counter is driven by a global allocator
        src += '''
pub struct CountingGlobal;
unsafe impl std::alloc::GlobalAlloc for CountingGlobal {
    unsafe fn alloc(&self, l: std::alloc::Layout) -> *mut u8 { ALLOCS += 1; std::alloc::GlobalAlloc::alloc(&std::alloc::System, l) }
    unsafe fn dealloc(&self, p: *mut u8, l: std::alloc::Layout) { std::alloc::GlobalAlloc::dealloc(&std::alloc::System, p, l) }
}
#[global_allocator]
static COUNTING_GLOBAL: CountingGlobal = CountingGlobal;
'''
    return src


def native_replay(prog, harness, vals, replay_dir, unimock_feature=False, failed_checks=()):
    if os.path.exists(replay_dir):
        shutil.rmtree(replay_dir)
    os.makedirs(os.path.join(replay_dir, 'src'))
    feats = ', features = ["unimock"]' if unimock_feature else ''
    open(os.path.join(replay_dir, 'Cargo.toml'), 'w').write(
        run.CARGO_TOML.format(repo=run.REPO, features=feats, extra_deps='unimock = "0.6"' if unimock_feature else '')
        .replace('[lib]\npath = "src/lib.rs"\n', '[[bin]]\nname = "replay"\npath = "src/main.rs"\n').replace('name = "xcorpus"', 'name = "xreplay"'))
    shutil.copy(os.path.join(run.REPO, 'Cargo.lock'), os.path.join(replay_dir, 'Cargo.lock'))
    shutil.copy(os.path.join(run.VERIF, 'xeng', 'rt.rs'), os.path.join(replay_dir, 'src', 'rt.rs'))
    open(os.path.join(replay_dir, 'src', 'kani.rs'), 'w').write(KANI_SHIM)
    open(os.path.join(replay_dir, 'src', f'{prog.pid}.rs'), 'w').write(nativize(prog.source))
    vv = ', '.join('vec![' + ', '.join(map(str, v)) + ']' for v in vals)
    open(os.path.join(replay_dir, 'src', 'main.rs'), 'w').write(
        '#![allow(unused, non_snake_case, static_mut_refs)]\nmod rt;\nmod kani;\n'
        f'mod {prog.pid};\nfn main() {{\n    kani::set(vec![{vv}]);\n    {prog.pid}::{harness}();\n'
        '    println!("REPLAY: harness completed without failing assertion");\n}\n')
    json.dump(dict(program=prog.pid, desc=prog.desc, harness=harness, concrete_vals=vals,
                   failed_checks=list(failed_checks),
                   how='cargo run --offline [--release]  (a panic = the violated assertion reproduced natively)'),
              open(os.path.join(replay_dir, 'replay.json'), 'w'), indent=1)
    return run_native(replay_dir)


def run_native(replay_dir):
    """-> {'dev': (reproduced, msg), 'release': (...)}.  Reproduced = the harness does not complete normally when run
    natively with the solver's values: a failed assertion (panic), an abort (e.g. stack overflow from unbounded
    recursion) or non-termination within the cap."""
    res = {}
    tgt = os.path.join(run.CACHE, 'x-replay-target')
    for prof, flag in (('dev', []), ('release', ['--release'])):
        b = subprocess.run(['cargo', 'build', '--offline', '-q', '--target-dir', tgt] + flag, cwd=replay_dir,
                           env=run.ENV, capture_output=True, text=True, timeout=1800)
        if b.returncode != 0:
            res[prof] = (False, 'replay crate does not build: ' + b.stderr.strip()[-300:])
            continue
        exe = os.path.join(tgt, 'release' if flag else 'debug', 'replay')
        try:
            r = subprocess.run([exe], cwd=replay_dir, env=run.ENV, capture_output=True, text=True, timeout=60)
        except subprocess.TimeoutExpired:
            res[prof] = (True, 'does not terminate natively (60 s cap)')
            continue
        txt = r.stdout + r.stderr
        m = re.search(r"panicked at [^\n]*\n([^\n]*)", txt)
        if r.returncode == 101 and 'panicked at' in txt:
            res[prof] = (True, m.group(1).strip() if m else 'panicked')
        elif r.returncode != 0:
            res[prof] = (True, f'abnormal termination rc={r.returncode}: ' + txt.strip()[-200:])
        else:
            res[prof] = (False, txt.strip()[-300:])
    return res
