"""Engine X driver: corpus -> compile isolation -> Kani -> replay -> Outcome."""

import os, re, time, shutil
from . import run, replay


MAX_REPLAYS = 3


def slug(s, n=60):
    return re.sub(r'[^a-zA-Z0-9]+', '-', s).strip('-')[:n]


def classify_compile_error(msgs):
    codes = []
    for m in msgs:
        mm = re.search(r'error\[(E\d+)\]', m)
        if mm:
            codes.append(mm.group(1))
        else:
            first = m.strip().splitlines()[0] if m.strip() else ''
            codes.append(slug(first.replace('error:', ''), 40))
    return codes[0] if codes else 'unknown'


def is_compile_violation(policy, code, msg=''):
    """policy True: every compile failure of a corpus program is a violation (the property is about compiling).
    policy 'coded': only a rustc-coded error (E....), i.e. the macro accepted the input and emitted code rustc rejects - there is
    then no generated method the property could hold for; a diagnostic of the macro itself (no code) is recorded, not judged."""
    if policy is True:
        return True
    if policy != 'coded':
        return False
    if re.match(r'E\d+$', code or '') is not None:
        return True
    # an uncoded error is a diagnostic some macro wrote: entrait's own (the input is then not an accepted one: recorded, not judged),
    # or another macro's (async_trait, mockall, unimock ..) complaining about what entrait generated: judged
    origin = re.search(r'originates in the (?:attribute |derive )?macro `([^`]+)`', msg or '')
    return origin is not None and 'entrait' not in origin.group(1)


def run_corpus(out, progs, name, unimock_feature=False, tests=False, jobs=16, kani_extra=(),
               compile_failure_is_violation=False, timeout=3000, compile_only=False):
    """Runs all harnesses of `progs`. Fills `out` (violations / inconclusive) and returns stats dict."""
    stats = dict(programs=len(progs), harnesses=0, successful=0, failed=0, checks=0, solver_time_s=0.0,
                 compile_failed={}, kani_wall_s=0.0, build='unimock-feature' if unimock_feature else 'default-features',
                 cfg_test=tests)
    tsfx = ('-um' if unimock_feature else '') + ('-t' if tests else '')
    chk_target = os.path.join(run.CACHE, 'x-check-target' + tsfx)
    kani_target = os.path.join(run.CACHE, 'x-kani-target' + tsfx)
    extra_deps = ''
    try:
        crate, cur, failed = run.isolate_compile_failures(name, progs, unimock_feature, chk_target, tests, extra_deps)
    except RuntimeError as e:
        out.inconc(f'engine X: {e}')
        return stats
    by_pid = {p.pid: p for p in progs}
    for pid, msgs in failed.items():
        p = by_pid[pid]
        code = classify_compile_error(msgs)
        stats['compile_failed'][pid] = dict(desc=p.desc, error=code, first=msgs[0][:600])
        if is_compile_violation(compile_failure_is_violation, code, '\n'.join(msgs)):
            rdir = os.path.join(run.WORK, 'replay', f'{out.prop}_{pid}_compile')
            write_compile_replay(p, rdir, unimock_feature, msgs)
            out.violation(f'compile:{code}:{p.tag}', f'expansion of program {pid} ({p.desc}) does not compile: {code}',
                          rdir, 'X/rustc')
    if not cur:
        out.inconc('engine X: no program of the corpus compiles')
        return stats
    hs = [h for p in cur for h in p.harnesses]
    stats['harnesses'] = len(hs)
    if not hs or compile_only:
        stats['compile_only'] = compile_only
        stats['programs_compiled'] = len(cur)
        return stats
    for _round in range(4):
        rc, log, dt = run.run_kani(crate, kani_target, tests=tests, jobs=jobs, extra=kani_extra, timeout=timeout)
        open(os.path.join(crate, 'kani.log'), 'w').write(log)
        stats['kani_wall_s'] = round(stats['kani_wall_s'] + dt, 1)
        res, summ = run.parse_kani(log)
        if res or summ or 'could not compile' not in log:
            break
        # harness code (cfg(kani)) of some program does not compile against the expansion: isolate it
        bad = run.attribute_text_errors(log)
        if not bad:
            break
        for pid, msgs in bad.items():
            p = by_pid[pid]
            code = classify_compile_error(msgs)
            stats['compile_failed'][pid] = dict(desc=p.desc, error=code, first=msgs[0][:600], where='harness (call site)')
            if is_compile_violation(compile_failure_is_violation, code, '\n'.join(msgs)):
                rdir = os.path.join(run.WORK, 'replay', f'{out.prop}_{pid}_compile')
                write_compile_replay(p, rdir, unimock_feature, msgs)
                out.violation(f'compile-callsite:{code}:{p.tag}', f'call site of program {pid} ({p.desc}) does not compile against the expansion: {code}',
                              rdir, 'X/rustc')
        cur = [p for p in cur if p.pid not in bad]
        hs = [h for p in cur for h in p.harnesses]
        stats['harnesses'] = len(hs)
        crate = run.write_crate(name, cur, unimock_feature, extra_deps)
    if summ is None and not res:
        out.inconc(f'engine X: cargo kani produced no verdicts (rc={rc}); see {crate}/kani.log')
        return stats
    h2p = {h: p for p in cur for h in p.harnesses}
    for h in hs:
        r = res.get(h)
        p = h2p[h]
        if r is None or r['status'] in ('UNKNOWN', 'ERROR'):
            out.inconc(f'engine X: harness {h} has no verdict ({r and r["status"]})')
            continue
        stats['checks'] += r.get('checks') or 0
        stats['solver_time_s'] += r.get('time') or 0
        expect_fail = h in p.expect_fail
        if r['status'] == 'SUCCESSFUL':
            if expect_fail:
                out.inconc(f'engine X: control harness {h} was expected to fail (vacuity / observation device broken)')
                continue
            if r.get('cover') and r['cover'][0] != r['cover'][1]:
                out.inconc(f'engine X: harness {h} does not reach its end (cover {r["cover"]}) - vacuous')
                continue
            stats['successful'] += 1
        else:
            if expect_fail:
                stats['successful'] += 1
                stats.setdefault('controls_failed_as_expected', 0)
                stats['controls_failed_as_expected'] += 1
                continue
            stats['failed'] += 1
            stats.setdefault('failed_harnesses', []).append(dict(harness=h, program=p.pid, desc=p.desc, checks=r['failed_checks'][:3]))
            if stats['failed'] > MAX_REPLAYS:
                # already have reproduced counterexamples; list the rest without replaying each
                if not any(v.engine == 'X/kani' for v in out.violations):
                    pass
                else:
                    continue
            # replay
            rdir = os.path.join(run.WORK, 'replay', f'{out.prop}_{h}')
            single = run.write_crate(name + '_cx', [p], unimock_feature)
            vals, cxlog = replay.concrete_values(single, kani_target + '-cx', h, extra=kani_extra)
            if vals is None:
                out.inconc(f'engine X: harness {h} FAILED ({r["failed_checks"][:2]}) but no concrete values could be extracted')
                continue
            rr = replay.native_replay(p, h, vals, rdir, unimock_feature, r['failed_checks'])
            if rr['dev'][0] or rr['release'][0]:
                what = (f'harness {h} of program {p.pid} ({p.desc}): {r["failed_checks"][0] if r["failed_checks"] else "failed"}; '
                        f'native replay dev={rr["dev"]} release={rr["release"]}')
                msg = r['failed_checks'][0] if r['failed_checks'] else 'failed'
                out.violation(f'x:{slug(msg, 50)}:{p.tag}', what, rdir, 'X/kani')
            else:
                out.inconc(f'engine X: counterexample of {h} did not reproduce natively ({rr}); encoding problem')
    stats['solver_time_s'] = round(stats['solver_time_s'], 2)
    return stats


def write_compile_replay(p, rdir, unimock_feature, msgs):
    if os.path.exists(rdir):
        shutil.rmtree(rdir)
    os.makedirs(os.path.join(rdir, 'src'))
    feats = ', features = ["unimock"]' if unimock_feature else ''
    open(os.path.join(rdir, 'Cargo.toml'), 'w').write(
        run.CARGO_TOML.format(repo=run.REPO, features=feats, extra_deps='unimock = "0.6"' if unimock_feature else ''))
    shutil.copy(os.path.join(run.REPO, 'Cargo.lock'), os.path.join(rdir, 'Cargo.lock'))
    shutil.copy(os.path.join(run.VERIF, 'xeng', 'rt.rs'), os.path.join(rdir, 'src', 'rt.rs'))
    open(os.path.join(rdir, 'src', f'{p.pid}.rs'), 'w').write(p.source)
    open(os.path.join(rdir, 'src', 'lib.rs'), 'w').write(
        f'#![allow(unused, non_snake_case, static_mut_refs)]\npub mod rt;\npub mod {p.pid};\n')
    open(os.path.join(rdir, 'EXPECTED_ERROR.txt'), 'w').write('\n'.join(msgs))
    import json
    json.dump(dict(kind='compile', program=p.pid, desc=p.desc, how='cargo check --offline  (must fail with the recorded error)'),
              open(os.path.join(rdir, 'replay.json'), 'w'), indent=1)
