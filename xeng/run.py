"""Engine X runner: write the generated harness crate, run `cargo kani`, parse verdicts,
isolate programs that no longer compile, replay counterexamples."""

import json, os, re, shutil, subprocess, time

VERIF = os.path.dirname(os.path.dirname(os.path.abspath(__file__)))
REPO = os.environ.get('VERIF_REPO', '/repo')
CACHE = os.environ.get('VERIF_CACHE') or os.path.join(VERIF, '.cache')
WORK = os.environ.get('VERIF_WORK') or os.path.join(VERIF, 'work')

CARGO_TOML = '''[package]
name = "xcorpus"
version = "0.0.0"
edition = "2021"

[lib]
path = "src/lib.rs"

[dependencies]
entrait = {{ path = "{repo}"{features} }}
async-trait = "0.1"
{extra_deps}

[lints.rust]
unexpected_cfgs = {{ level = "allow", check-cfg = ['cfg(kani)'] }}

[workspace]
'''

ENV = dict(os.environ, CARGO_NET_OFFLINE='true', CARGO_TERM_COLOR='never')


def write_crate(name, progs, unimock_feature=False, extra_deps=''):
    d = os.path.join(WORK, name)
    if os.path.exists(d):
        shutil.rmtree(d)
    os.makedirs(os.path.join(d, 'src'))
    feats = ', features = ["unimock"]' if unimock_feature else ''
    if unimock_feature:
        extra_deps += '\nunimock = "0.6"'
    if any('verif_marker' in p.source for p in progs):
        extra_deps += f'\nverif_marker = {{ path = "{VERIF}/xeng/verif_marker" }}'
    open(os.path.join(d, 'Cargo.toml'), 'w').write(CARGO_TOML.format(repo=REPO, features=feats, extra_deps=extra_deps))
    shutil.copy(os.path.join(REPO, 'Cargo.lock'), os.path.join(d, 'Cargo.lock'))
    os.makedirs(os.path.join(d, '.cargo'))
    open(os.path.join(d, '.cargo', 'config.toml'), 'w').write('[net]\noffline = true\n')
    shutil.copy(os.path.join(VERIF, 'xeng', 'rt.rs'), os.path.join(d, 'src', 'rt.rs'))
    lib = '#![allow(unused, non_snake_case, static_mut_refs)]\npub mod rt;\n'
    for p in progs:
        lib += f'pub mod {p.pid};\n'
        open(os.path.join(d, 'src', f'{p.pid}.rs'), 'w').write(p.source)
    open(os.path.join(d, 'src', 'lib.rs'), 'w').write(lib)
    return d


def cargo_check_failing_programs(crate_dir, target_dir, progs, tests=False):
    """Returns {pid: [messages]} for programs whose file has a rustc error. Uses plain
    `cargo check` with JSON diagnostics (cfg(kani) off: harness fns are cfg'd out, the
    programs themselves are not)."""
    cmd = ['cargo', 'check', '--offline', '--message-format=json', '--target-dir', target_dir]
    if tests:
        cmd.append('--tests')
    r = subprocess.run(cmd, cwd=crate_dir, env=ENV, capture_output=True, text=True)
    bad = {}
    other = []
    for line in r.stdout.splitlines():
        try:
            m = json.loads(line)
        except Exception:
            continue
        if m.get('reason') != 'compiler-message':
            continue
        msg = m['message']
        if msg.get('level') != 'error':
            continue
        # the program an error belongs to is the file of its PRIMARY span(s) (secondary spans are rustc's hints, e.g. every
        # other item of the same name in the crate); without primary spans fall back to all of them
        spans = [s for s in msg.get('spans', []) if s.get('is_primary')] or msg.get('spans', [])
        files = {s['file_name'] for s in spans}
        # follow macro expansion back-traces
        def walk(sp):
            while sp:
                files.add(sp['file_name'])
                sp = (sp.get('expansion') or {}).get('span')
        for s in spans:
            walk(s)
        hit = False
        for f in files:
            mm = re.search(r'src/([a-z0-9_]+)\.rs$', f)
            if mm and mm.group(1) not in ('lib', 'rt'):
                bad.setdefault(mm.group(1), []).append(msg.get('rendered') or msg.get('message'))
                hit = True
        if not hit:
            other.append(msg.get('rendered') or msg.get('message'))
    return r.returncode, bad, other


def isolate_compile_failures(name, progs, unimock_feature, target_dir, tests=False, extra_deps=''):
    """Write crate; drop programs that fail to compile until `cargo check` passes.
    Returns (crate_dir, surviving progs, {pid: messages})"""
    failed = {}
    cur = list(progs)
    for _round in range(6):
        d = write_crate(name, cur, unimock_feature, extra_deps)
        rc, bad, other = cargo_check_failing_programs(d, target_dir, cur, tests)
        if rc == 0:
            return d, cur, failed
        if not bad:
            raise RuntimeError('corpus crate does not compile and the error is not attributable to a program:\n' + '\n'.join(other[:5]))
        failed.update(bad)
        cur = [p for p in cur if p.pid not in bad]
    raise RuntimeError('could not isolate compile failures')


RES_RE = re.compile(r'^VERIFICATION:- (SUCCESSFUL|FAILED)', re.M)


def attribute_text_errors(log):
    """rustc human-readable errors in a cargo-kani log -> {pid: [msg]} (by ` --> src/<pid>.rs`)"""
    bad = {}
    blocks = re.split(r'\n(?=error(?:\[E\d+\])?: )', log)
    for b in blocks:
        if not b.startswith('error'):
            continue
        for mm in re.finditer(r'--> src/([a-z0-9_]+)\.rs:', b):
            pid = mm.group(1)
            if pid not in ('lib', 'rt'):
                bad.setdefault(pid, []).append(b[:1500])
                break
    return bad


def run_kani(crate_dir, target_dir, tests=False, jobs=16, timeout=3000, harness=None, extra=()):
    cmd = ['cargo', 'kani', '--target-dir', target_dir, '--output-format', 'terse']
    if jobs and jobs > 1 and not harness:
        cmd += ['-j', str(jobs)]
    if tests:
        cmd.append('--tests')
    if harness:
        cmd += ['--harness', harness]
    cmd += list(extra)
    t0 = time.time()
    try:
        r = subprocess.run(cmd, cwd=crate_dir, env=ENV, capture_output=True, text=True, timeout=timeout)
        out = r.stdout + '\n' + r.stderr
        rc = r.returncode
    except subprocess.TimeoutExpired as e:
        out = (e.stdout or b'').decode() if isinstance(e.stdout, bytes) else (e.stdout or '')
        out += '\nTIMEOUT'
        rc = 124
    return rc, out, time.time() - t0


def parse_kani(out):
    """-> ({harness: {'status': 'SUCCESSFUL'|'FAILED'|'UNKNOWN', 'failed_checks': [...], 'time': s,
    'cover': (sat, total), 'checks': n}}, summary).  Handles both the sequential and the `-j N`
    (per-thread blocks) output formats."""
    res = {}
    cur = {}          # thread id (or None) -> harness name
    blk_thread = None
    for line in out.splitlines():
        m = re.match(r'^(?:Thread (\d+): )?Checking harness (\S+?)\.\.\.\s*$', line)
        if m:
            t = m.group(1)
            name = m.group(2).split('::')[-1]
            cur[t] = name
            res.setdefault(name, dict(status='UNKNOWN', failed_checks=[], time=None, cover=None, checks=None))
            blk_thread = t
            continue
        m = re.match(r'^Thread (\d+):\s*$', line)
        if m:
            blk_thread = m.group(1)
            continue
        h = cur.get(blk_thread)
        if h is None:
            continue
        r = res[h]
        m = re.match(r'^VERIFICATION:- (SUCCESSFUL|FAILED)', line)
        if m:
            r['status'] = m.group(1)
            continue
        m = re.match(r'^Failed Checks: (.*)$', line)
        if m:
            r['failed_checks'].append(m.group(1))
            continue
        m = re.match(r'^Verification Time: ([0-9.]+)s', line)
        if m:
            r['time'] = float(m.group(1))
            continue
        m = re.match(r'^ \*\* (\d+) of (\d+) cover properties satisfied', line)
        if m:
            r['cover'] = (int(m.group(1)), int(m.group(2)))
            continue
        m = re.match(r'^ \*\* (\d+) of (\d+) failed', line)
        if m:
            r['checks'] = int(m.group(2))
            r['n_failed'] = int(m.group(1))
            continue
        if 'CBMC failed' in line or 'Status: ERROR' in line or 'out of memory' in line.lower():
            r['status'] = 'ERROR'
    summ = re.search(r'Complete - (\d+) successfully verified harnesses, (\d+) failures, (\d+) total', out)
    return res, (tuple(map(int, summ.groups())) if summ else None)
