"""Engine X: generators of client programs (real `#[entrait]` invocations) plus
Kani proof harnesses over them.  Every argument value and the application state
are `kani::any()`; what is enumerated is the *program* (see DESIGN.md 2.2)."""

import itertools, random

# --------------------------------------------------------------------------
# parameter kinds: how a parameter is declared in the fn, observed in the body,
# created in the harness, and what the harness expects in the trace.
# n = binding name inside the fn, i = index in the harness
# --------------------------------------------------------------------------

class P:
    def __init__(self, kind, name=None):
        self.kind = kind
        self.name = name

    def decl(self, n, fn_name):
        k = self.kind
        return {
            'u32': (f'{n}', 'u32'), 'u16': (f'{n}', 'u16'), 'u8': (f'{n}', 'u8'), 'bool': (f'{n}', 'bool'),
            'mut_u32': (f'mut {n}', 'u32'),
            'wild': ('_', 'u32'),
            'tup': (f'({n}a, {n}b)', '(u16, u16)'),
            'n1': (f'N({n})', 'N'),
            'n2': (f'N2({n}, _)', 'N2'),
            's': ('S { a }', 'S'),
            'refpat': (f'&{n}', '&u32'),
            'ref_u32': (f'{n}', '&u32'),
            'mutref': (f'{n}', '&mut u32'),
            'tok': (f'{n}', 'Tok'),
            'arr': (f'{n}', '[u8; 2]'),
            'raw': ('r#type', 'u32'),
            'rawpat': ('N(r#match)', 'N'),
            'fname': (fn_name, 'u32'),
            'gen': (f'{n}', 'T'),
            'atpat': (f'{n} @ 0..=u32::MAX', 'u32'),
        }[k]

    def body_enc(self, n, fn_name):
        k = self.kind
        if k in ('u32', 'u16', 'u8', 'bool', 'mut_u32', 'n1', 'n2', 'refpat', 'atpat'):
            return f'({n} as u64)'
        if k == 'wild':
            return None
        if k == 'tup':
            return f'((({n}a as u64) << 16) | ({n}b as u64))'
        if k == 's':
            return '(a as u64)'
        if k in ('ref_u32', 'mutref'):
            return f'(*{n} as u64)'
        if k == 'tok':
            return f'({n}.0 as u64)'
        if k == 'arr':
            return f'((({n}[0] as u64) << 8) | ({n}[1] as u64))'
        if k == 'raw':
            return '(r#type as u64)'
        if k == 'rawpat':
            return '(r#match as u64)'
        if k == 'fname':
            return f'({fn_name} as u64)'
        if k == 'gen':
            return f'({n}.into())'
        raise KeyError(k)

    def body_post(self, n):
        if self.kind == 'mutref':
            return f'*{n} = {n}.wrapping_add(3);'
        if self.kind == 'mut_u32':
            return f'{n} = {n}.wrapping_add(1); let _ = {n};'
        return ''

    # harness side -----------------------------------------------------
    def h_decl(self, i):
        k = self.kind
        if k in ('u32', 'mut_u32', 'wild', 'refpat', 'ref_u32', 'mutref', 'tok', 'raw', 'fname', 'gen', 'atpat'):
            return f'let v{i}: u32 = kani::any();'
        if k in ('u16', 'u8', 'bool'):
            return f'let v{i}: {k} = kani::any();'
        if k == 'tup':
            return f'let v{i}: (u16, u16) = (kani::any(), kani::any());'
        if k in ('n1', 'rawpat'):
            return f'let v{i}: N = N(kani::any());'
        if k == 'n2':
            return f'let v{i}: N2 = N2(kani::any(), kani::any());'
        if k == 's':
            return f'let v{i}: S = S {{ a: kani::any() }};'
        if k == 'arr':
            return f'let v{i}: [u8; 2] = [kani::any(), kani::any()];'
        raise KeyError(k)

    def h_pre(self, i, tag):
        if self.kind == 'mutref':
            return f'let mut m{i}_{tag}: u32 = v{i};'
        return ''

    def h_arg(self, i, tag):
        k = self.kind
        if k in ('refpat', 'ref_u32'):
            return f'&v{i}'
        if k == 'mutref':
            return f'&mut m{i}_{tag}'
        if k == 'tok':
            return f'Tok(v{i})'
        return f'v{i}'

    def h_exp(self, i):
        k = self.kind
        if k == 'wild':
            return None
        if k == 'tup':
            return f'(((v{i}.0 as u64) << 16) | (v{i}.1 as u64))'
        if k in ('n1', 'n2', 'rawpat'):
            return f'(v{i}.0 as u64)'
        if k == 's':
            return f'(v{i}.a as u64)'
        if k == 'arr':
            return f'(((v{i}[0] as u64) << 8) | (v{i}[1] as u64))'
        return f'(v{i} as u64)'

    def h_post_eq(self, i):
        if self.kind == 'mutref':
            return f'assert!(m{i}_via == m{i}_dir); assert!(m{i}_via == v{i}.wrapping_add(3));'
        return ''


# deps kinds ---------------------------------------------------------------
# (generics, deps param, where clause, uses_id, by_value)
DEPS = {
    'gen':        dict(gen='D', param='deps: &D', where='', uses_id=False, byval=False),
    'bound':      dict(gen='D: HasId', param='deps: &D', where='', uses_id=True, byval=False),
    'impl':       dict(gen='', param='deps: &impl HasId', where='', uses_id=True, byval=False),
    'impl2':      dict(gen='', param='deps: &(impl HasId + HasTag)', where='', uses_id=True, byval=False, uses_tag=True),
    'where':      dict(gen='D', param='deps: &D', where='D: HasId', uses_id=True, byval=False),
    'split':      dict(gen='D: HasId', param='deps: &D', where='D: HasTag', uses_id=True, byval=False, uses_tag=True),
    'byval':      dict(gen='D: HasId', param='deps: D', where='', uses_id=True, byval=True),
    'byval_impl': dict(gen='', param='deps: impl HasId', where='', uses_id=True, byval=True),
    'concrete':   dict(gen='', param='deps: &Cfg', where='', uses_id=False, byval=False, concrete=True),
    'nodeps':     dict(gen='', param=None, where='', uses_id=False, byval=False),
}

PRELUDE = '''#![allow(unused, non_snake_case)]
use crate::rt::{self, N, N2, S, Tok};
use ::entrait::Impl;

pub struct App { pub id: u32, pub tag: u32 }
pub trait HasId { fn id(&self) -> u32; }
pub trait HasTag { fn tag(&self) -> u32; }
impl HasId for Impl<App> { fn id(&self) -> u32 { self.id } }
impl HasTag for Impl<App> { fn tag(&self) -> u32 { self.tag } }
pub struct Cfg { pub id: u32 }
'''


class FnSpec:
    """one entraited function (standalone or member of a module)"""

    def __init__(self, name, deps, params, is_async=False, vis='pub', fn_id=1, extra_generic=None,
                 attrs=(), quals='', where_extra=''):
        self.name = name
        self.deps = deps
        self.params = params
        self.is_async = is_async
        self.vis = vis
        self.fn_id = fn_id
        self.extra_generic = extra_generic  # e.g. 'T: Copy + Into<u64>'
        self.attrs = attrs
        self.quals = quals
        self.where_extra = where_extra

    def names(self):
        # deliberately neither ascending nor descending: a name-sorted forwarding order is observable
        pool = ['pb', 'pc', 'pa', 'pe', 'pd', 'pf']
        return [p.name or pool[i] for i, p in enumerate(self.params)]

    def source(self):
        d = DEPS[self.deps]
        gens = [g for g in [d['gen'], self.extra_generic] if g]
        gen = f"<{', '.join(gens)}>" if gens else ''
        ps = []
        if d['param']:
            ps.append(d['param'])
        encs, posts = [], []
        for p, n in zip(self.params, self.names()):
            pat, ty = p.decl(n, self.name)
            ps.append(f'{pat}: {ty}')
            e = p.body_enc(n, self.name)
            if e:
                encs.append(e)
            posts.append(p.body_post(n))
        wh = [w for w in [d['where'], self.where_extra] if w]
        where = f" where {', '.join(wh)}" if wh else ''
        if d.get('concrete'):
            deps_addr = 'rt::addr(deps)'
        elif d['param'] and not d['byval']:
            deps_addr = 'rt::addr(deps)'
        else:
            deps_addr = '0'
        args_arr = ', '.join(encs + ['0'] * (6 - len(encs)))
        idmix = ''
        if d['uses_id']:
            idmix += ' let r = rt::mix(r, deps.id() as u64);'
        if d.get('uses_tag'):
            idmix += ' let r = rt::mix(r, deps.tag() as u64);'
        if d.get('concrete'):
            idmix += ' let r = rt::mix(r, deps.id as u64);'
        mixes = ''.join(f' let r = rt::mix(r, {e});' for e in encs)
        asy = 'async ' if self.is_async else ''
        aw = ' rt::YieldOnce(false).await;' if self.is_async else ''
        attrs = ''.join(a + '\n' for a in self.attrs)
        return (f"{attrs}{self.vis + ' ' if self.vis else ''}{self.quals}{asy}fn {self.name}{gen}({', '.join(ps)}) -> u64{where} {{\n"
                f"    rt::trace({self.fn_id}, 0, {deps_addr}, {len(encs)}, [{args_arr}]);{aw}\n"
                f"    let r = {self.fn_id}u64;{idmix}{mixes}\n"
                f"    {' '.join(x for x in posts if x)}\n"
                f"    r\n}}\n")

    # harness --------------------------------------------------------------
    def harness(self, hname, trait_path_prefix='', fn_path='', recv='impl', unwind=4):
        """recv: 'impl' (Impl<App>), 'cfg' (the concrete type itself), 'implcfg' (Impl<Cfg>)"""
        d = DEPS[self.deps]
        L = []
        L.append('#[cfg(kani)]\n#[kani::proof]')
        L.append(f'#[kani::unwind({unwind})]')
        L.append(f'fn {hname}() {{')
        if d.get('concrete'):
            if recv == 'cfg':
                mk = 'Cfg { id: app_id }'
                L.append('    let app_id: u32 = kani::any();')
            else:
                mk = 'Impl::new(Cfg { id: app_id })'
                L.append('    let app_id: u32 = kani::any();')
        else:
            mk = 'Impl::new(App { id: app_id, tag: app_tag })'
            L.append('    let app_id: u32 = kani::any(); let app_tag: u32 = kani::any();')
        for i, p in enumerate(self.params):
            L.append('    ' + p.h_decl(i))
        for tag in ('via', 'dir'):
            for i, p in enumerate(self.params):
                s = p.h_pre(i, tag)
                if s:
                    L.append('    ' + s)
        L.append(f'    let app = {mk};')
        L.append('    rt::reset();')
        args_via = ', '.join(p.h_arg(i, 'via') for i, p in enumerate(self.params))
        args_dir = ', '.join(p.h_arg(i, 'dir') for i, p in enumerate(self.params))
        tgen = '::<u32>' if False else ''
        fnp = fn_path + self.name
        if d['byval']:
            L.append(f'    let app2 = {mk};')
            call_via = f'app.{self.name}({args_via})'
            call_dir = f'{fnp}(app2{", " if args_dir else ""}{args_dir})'
            exp_addr = '0'
        elif d['param'] is None:
            call_via = f'app.{self.name}({args_via})'
            call_dir = f'{fnp}({args_dir})'
            exp_addr = '0'
        elif d.get('concrete'):
            call_via = f'app.{self.name}({args_via})'
            if recv == 'cfg':
                call_dir = f'{fnp}(&app{", " if args_dir else ""}{args_dir})'
                exp_addr = 'rt::addr(&app)'
            else:
                call_dir = f'{fnp}(&*app{", " if args_dir else ""}{args_dir})'
                exp_addr = 'rt::addr(&*app)'
        else:
            call_via = f'app.{self.name}({args_via})'
            call_dir = f'{fnp}(&app{", " if args_dir else ""}{args_dir})'
            exp_addr = 'rt::addr(&app)'
        if self.is_async:
            call_via = f'rt::block_on({call_via})'
            call_dir = f'rt::block_on({call_dir})'
        if 'unsafe' in self.quals:
            call_via = f'unsafe {{ {call_via} }}'
            call_dir = f'unsafe {{ {call_dir} }}'
        L.append(f'    let via: u64 = {call_via};')
        L.append('    assert!(rt::count() == 1, "exactly one call of the original function");')
        L.append('    let e = rt::ev(0);')
        L.append(f'    assert!(e.fn_id == {self.fn_id}, "own function reached");')
        L.append(f'    assert!(e.deps == {exp_addr}, "receiver is the dependency");')
        exps = [p.h_exp(i) for i, p in enumerate(self.params)]
        exps = [e for e in exps if e]
        L.append(f'    assert!(e.nargs == {len(exps)});')
        for j, e in enumerate(exps):
            L.append(f'    assert!(e.args[{j}] == {e}, "argument {j} in declared order");')
        L.append('    rt::reset();')
        L.append(f'    let dir: u64 = {call_dir};')
        L.append('    assert!(via == dir, "result equals the direct call");')
        for i, p in enumerate(self.params):
            s = p.h_post_eq(i)
            if s:
                L.append('    ' + s)
        L.append('    kani::cover!(true, "harness end reachable");')
        L.append('}')
        return '\n'.join(L) + '\n'


class Program:
    def __init__(self, pid, desc, source, harnesses, props, features=(), tests_cfg=False, expect_fail=(), tag=None):
        self.pid = pid
        import re as _re
        self.tag = tag or _re.sub(r'[^a-zA-Z0-9_=,?]+', '-', desc).strip('-')[:80]
        self.desc = desc
        self.source = source
        self.harnesses = harnesses  # list of harness fn names
        self.props = props
        self.features = features
        self.tests_cfg = tests_cfg
        self.expect_fail = expect_fail


def single_fn_program(pid, fn, trait='Tr', opts='', macro='::entrait::entrait', desc=''):
    src = PRELUDE
    o = f', {opts}' if opts else ''
    src += f'#[{macro}(pub {trait}{o})]\n' + fn.source() + '\n'
    hs = []
    d = DEPS[fn.deps]
    if d.get('concrete'):
        src += fn.harness(f'{pid}_h_cfg', recv='cfg')
        src += fn.harness(f'{pid}_h_implcfg', recv='implcfg')
        hs += [f'{pid}_h_cfg', f'{pid}_h_implcfg']
    else:
        src += fn.harness(f'{pid}_h')
        hs.append(f'{pid}_h')
    # fn-pointer coercion witness (C03; rustc-decided)
    modes = sorted({'mut': 'mut', 'atpat': '@'}[k] for k in (('mut' if p.kind == 'mut_u32' else p.kind) for p in fn.params) if k in ('mut', 'atpat'))
    tag = ('binding-mode-kept:' + '+'.join(modes)) if modes else None
    return Program(pid, desc or f'fn {fn.deps} {[p.kind for p in fn.params]} async={fn.is_async} opts={opts}', src, hs, ['C01'], tag=tag)


def module_program(pid, fns, private_fns=(), trait='Tr', opts='', macro='::entrait::entrait', desc='', extra_items=''):
    src = PRELUDE
    o = f', {opts}' if opts else ''
    src += f'#[{macro}(pub {trait}{o})]\npub mod m {{\n    use super::*;\n'
    for f in fns:
        src += '    ' + f.source().replace('\n', '\n    ') + '\n'
    for f in private_fns:
        src += '    ' + f.source().replace('\n', '\n    ') + '\n'
    src += extra_items
    src += '}\n'
    hs = []
    for f in fns:
        h = f'{pid}_h_{f.name}'
        src += f.harness(h, fn_path='m::')
        hs.append(h)
    kinds = {('mut' if p.kind == 'mut_u32' else p.kind) for f in fns for p in f.params}
    modes = sorted({'mut': 'mut', 'atpat': '@'}[k] for k in kinds if k in ('mut', 'atpat'))
    tag = ('binding-mode-kept:' + '+'.join(modes)) if modes else None
    return Program(pid, desc or f'mod of {[f.name for f in fns]} deps={[f.deps for f in fns]} params={[[p.kind for p in f.params] for f in fns][:1]}', src, hs, ['C01'], tag=tag)


# --------------------------------------------------------------------------
# corpus for C01
# --------------------------------------------------------------------------

ALL_KINDS = ['u32', 'u16', 'u8', 'bool', 'mut_u32', 'wild', 'tup', 'n1', 'n2', 's', 'refpat', 'ref_u32',
             'mutref', 'tok', 'arr', 'raw', 'fname', 'atpat']


def block_scope_program(pid):
    src = PRELUDE + '''
pub fn rate(deps: &impl HasId, rate: u32, q0: u32) -> u64 {
    rt::trace(9, 0, rt::addr(deps), 2, [rate as u64, q0 as u64, 0, 0, 0, 0]);
    1000
}
'''
    h = f'{pid}_h_block'
    src += (f'#[cfg(kani)]\n#[kani::proof]\n#[kani::unwind(4)]\nfn {h}() {{\n'
            '    #[::entrait::entrait(Rate)]\n'
            '    fn rate(deps: &impl HasId, rate: u32, q0: u32) -> u64 {\n'
            '        rt::trace(1, 0, rt::addr(deps), 2, [rate as u64, q0 as u64, 0, 0, 0, 0]);\n'
            '        rt::mix(rt::mix(deps.id() as u64, rate as u64), q0 as u64)\n    }\n'
            '    let app = Impl::new(App { id: kani::any(), tag: 0 });\n    let a: u32 = kani::any(); let b: u32 = kani::any();\n'
            '    rt::reset();\n    let via = app.rate(a, b);\n'
            '    assert!(rt::count() == 1, "exactly one call"); let e = rt::ev(0);\n'
            '    assert!(e.fn_id == 1, "the entraited (block-local) function is reached, not a module-level fn of the same name");\n'
            '    assert!(e.deps == rt::addr(&app), "receiver is the dependency");\n'
            '    assert!(e.args[0] == a as u64 && e.args[1] == b as u64, "arguments in declared order");\n'
            '    rt::reset();\n    let dir = rate(&app, a, b);\n    assert!(via == dir, "result equals the direct call");\n'
            '    kani::cover!(true);\n}\n')
    return Program(pid, 'fn in a block scope with a parameter spelled like the fn and a same-named module-level fn', src, [h], ['C01'])


def c01_corpus(tier, seed):
    rnd = random.Random(seed)
    progs = []
    k = 0

    def pid():
        nonlocal k
        k += 1
        return f'c01_{k:03d}'

    # core: every deps kind x {sync, async} with two same-typed adjacent params + one more
    for deps in DEPS:
        for is_async in (False, True):
            params = [P('u32'), P('u32'), P('u16')]
            f = FnSpec('f1', deps, params, is_async=is_async)
            opts = 'no_deps' if deps == 'nodeps' else ''
            progs.append(single_fn_program(pid(), f, opts=opts))
    # arity 0..4
    for n in range(0, 5):
        f = FnSpec('f1', 'gen', [P('u32') for _ in range(n)])
        progs.append(single_fn_program(pid(), f))
    # every pattern kind at least once, in position between two u32
    for kind in ALL_KINDS:
        f = FnSpec('f1', 'bound', [P('u32'), P(kind), P('u32')])
        progs.append(single_fn_program(pid(), f))
    # a parameter named like the fn, before and after every kind of non-identifier pattern (the rename must not depend on
    # what precedes it), also in a module and with no_deps
    for kind in ('wild', 'tup', 'n1', 'n2', 's', 'refpat', 'atpat', 'mut_u32'):
        progs.append(single_fn_program(pid(), FnSpec('f1', 'bound', [P(kind), P('fname'), P('u32')])))
        progs.append(single_fn_program(pid(), FnSpec('f1', 'impl', [P('u32'), P('fname'), P(kind)])))
    progs.append(single_fn_program(pid(), FnSpec('f1', 'nodeps', [P('tup'), P('fname')]), opts='no_deps'))
    progs.append(module_program(pid(), [FnSpec('fa', 'gen', [P('n1'), P('fname')], fn_id=1), FnSpec('fb', 'gen', [P('fname'), P('wild')], fn_id=2)]))
    # raw identifiers: as the only binding of a pattern, as a plain parameter next to a pattern, and a fn with a raw name that has
    # a parameter spelled like it (the rename `<fn>_` must be a valid identifier)
    progs.append(single_fn_program(pid(), FnSpec('f1', 'bound', [P('rawpat'), P('u32')]), desc='raw identifier as the only binding of a pattern'))
    progs.append(single_fn_program(pid(), FnSpec('f1', 'impl', [P('raw'), P('tup'), P('u32')]), desc='raw identifier parameter next to a pattern'))
    progs.append(single_fn_program(pid(), FnSpec('r#match', 'bound', [P('u32'), P('fname')]), desc='fn with a raw name and a parameter spelled like it'))
    # an entraited fn declared in a block scope (fn body), a parameter spelled like the fn, and a module-level fn of the same name
    # and signature: the method must reach the local fn (`self::name` would reach the other one)
    progs.append(block_scope_program(pid()))
    # generic extra type param
    f = FnSpec('f1', 'gen', [P('gen'), P('gen')], extra_generic='T: Copy + Into<u64>')
    progs.append(single_fn_program(pid(), f))
    f = FnSpec('f1', 'nodeps', [P('gen'), P('u32'), P('u32')], extra_generic='T: Copy + Into<u64> + Send', is_async=True)
    progs.append(single_fn_program(pid(), f, opts='no_deps'))
    # options that must not change behaviour
    for opts in ['?Send', 'export', 'mockall = false', 'unimock = false', 'debug = false']:
        f = FnSpec('f1', 'impl', [P('u32'), P('u32')], is_async=(opts == '?Send'))
        progs.append(single_fn_program(pid(), f, opts=opts))
    f = FnSpec('f1', 'gen', [P('u32'), P('u32')])
    progs.append(single_fn_program(pid(), f, macro='::entrait::entrait_export'))
    # async_trait below entrait
    # modules: identical signatures, private fn, pub(crate)
    for deps in ['gen', 'bound', 'impl', 'where', 'nodeps', 'byval']:
        for is_async in (False, True):
            sig = [P('u32'), P('u32')]
            fns = [FnSpec('fa', deps, list(sig), is_async=is_async, fn_id=1),
                   FnSpec('fb', deps, list(sig), is_async=is_async, fn_id=2, vis='pub(crate)'),
                   FnSpec('fc', deps, list(sig), is_async=is_async, fn_id=3, vis='pub(super)')]
            priv = [FnSpec('zz', deps, list(sig), is_async=is_async, fn_id=9, vis='')]
            opts = 'no_deps' if deps == 'nodeps' else ''
            progs.append(module_program(pid(), fns, priv, opts=opts))
    # module with mixed deps declarations contributing several bounds
    fns = [FnSpec('fa', 'bound', [P('u32'), P('u32')], fn_id=1),
           FnSpec('fb', 'split', [P('u32'), P('u32')], fn_id=2),
           FnSpec('fc', 'impl2', [P('u32'), P('u32')], fn_id=3)]
    progs.append(module_program(pid(), fns))
    # seeded remainder
    n_extra = 12 if tier == 'quick' else 150
    deps_kinds = list(DEPS)
    for _ in range(n_extra):
        deps = rnd.choice(deps_kinds)
        n = rnd.randint(2, 4)
        kinds = [rnd.choice(ALL_KINDS) for _ in range(n)]
        # at most one 's' (binding `a`), one 'raw', one 'fname'
        for uniq in ('s', 'raw', 'fname'):
            while kinds.count(uniq) > 1:
                kinds[kinds.index(uniq)] = 'u32'
        # guarantee a same-typed adjacent pair
        pos = rnd.randrange(0, n - 1)
        kinds[pos] = 'u32'
        kinds[pos + 1] = 'u32'
        is_async = rnd.random() < 0.4
        if rnd.random() < 0.35:
            fns = [FnSpec(nm, deps, [P(x) for x in kinds], is_async=is_async, fn_id=i + 1,
                          vis=rnd.choice(['pub', 'pub(crate)', 'pub(super)']))
                   for i, nm in enumerate(['fa', 'fb', 'fc'][:rnd.randint(2, 3)])]
            # 'fname' refers to own fn name; fine per fn
            opts = 'no_deps' if deps == 'nodeps' else ''
            if deps == 'concrete':
                continue
            progs.append(module_program(pid(), fns, opts=opts))
        else:
            f = FnSpec('f1', deps, [P(x) for x in kinds], is_async=is_async)
            opts = 'no_deps' if deps == 'nodeps' else ''
            progs.append(single_fn_program(pid(), f, opts=opts))
    return progs
