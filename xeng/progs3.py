"""Engine X corpora with type-level witnesses and special observation devices:
C03 (fn-pointer coercion), C04 / C10 (availability probes), C08 (module classification), C12 (Send / Output),
C14 (allocation counter), C18 (marker attribute), C19 (hostile scope), C02 (reference twins)."""

import random
from .progs import Program, PRELUDE, P, FnSpec, DEPS
from .progs2 import PROBE, harness_head

PH = 'core::marker::PhantomData'


def probe_impl(trait, name='yes'):
    return f'impl<T: ?Sized + {trait}> Probe<T> {{ pub fn {name}(&self) -> bool {{ true }} }}\n'


# ---------------------------------------------------------------------------
# C03: the function and the trait method coerce to one fn-pointer type
# ---------------------------------------------------------------------------

TY = {'u32': 'u32', 'u16': 'u16', 'u8': 'u8', 'bool': 'bool', 'mut_u32': 'u32', 'wild': 'u32', 'tup': '(u16, u16)', 'n1': 'N', 'n2': 'N2', 's': 'S',
      'refpat': '&u32', 'ref_u32': '&u32', 'mutref': '&mut u32', 'tok': 'Tok', 'arr': '[u8; 2]', 'raw': 'u32', 'fname': 'u32', 'atpat': 'u32'}


def c03_program(pid, deps, kinds, quals='', vis='pub', in_module=False):
    f = FnSpec('f1', deps, [P(k) for k in kinds], quals=quals, vis=vis)
    d = DEPS[deps]
    src = PRELUDE
    opts = ', no_deps' if deps == 'nodeps' else ''
    if in_module:
        src += f'#[::entrait::entrait(pub Tr{opts})]\npub mod m {{\n    use super::*;\n    ' + f.source().replace('\n', '\n    ') + '\n}\n'
        path = 'm::f1'
    else:
        src += f'#[::entrait::entrait(pub Tr{opts})]\n' + f.source() + '\n'
        path = 'f1'
    tys = ', '.join(TY[k] for k in kinds)
    q = ''
    if 'unsafe' in quals:
        q += 'unsafe '
    if 'extern' in quals:
        q += 'extern "C" '
    if d.get('concrete'):
        recv, app = '&Cfg', 'Cfg'
        fnexpr = path
    elif d['byval']:
        recv, app = 'Impl<App>', 'Impl<App>'
        fnexpr = f'{path}::<Impl<App>>' if d['gen'] else path
    elif d['param'] is None:
        recv, app = '&Impl<App>', 'Impl<App>'
        fnexpr = None
    else:
        recv, app = '&Impl<App>', 'Impl<App>'
        fnexpr = f'{path}::<Impl<App>>' if d['gen'] else path
    h = f'{pid}_h'
    src += harness_head(h)
    sep = ', ' if tys else ''
    src += f'    // rustc-decided witness: same call type (receiver, arguments...) -> return\n'
    src += f'    let via: {q}fn({recv}{sep}{tys}) -> u64 = <{app} as Tr>::f1;\n'
    if fnexpr:
        src += f'    let dir: {q}fn({recv}{sep}{tys}) -> u64 = {fnexpr};\n'
    else:
        src += f'    let dir: {q}fn({tys}) -> u64 = {path};\n'
    src += '    let _ = (via, dir);\n    kani::cover!(true);\n}\n'
    modes = sorted({'mut_u32': 'mut', 'atpat': '@'}[k] for k in kinds if k in ('mut_u32', 'atpat'))
    tag = ('binding-mode-kept:' + '+'.join(modes)) if modes else ('single-unsafe-fn' if ('unsafe' in quals and not in_module) else None)
    return Program(pid, f'coercion deps={deps} params={kinds} quals={quals!r} module={in_module}', src, [h], ['C03'], tag=tag)


def c03_corpus(tier, seed):
    progs = []
    k = 0

    def pid():
        nonlocal k
        k += 1
        return f'c03_{k:03d}'
    for deps in ('gen', 'bound', 'impl', 'impl2', 'where', 'split', 'byval', 'byval_impl', 'concrete', 'nodeps'):
        progs.append(c03_program(pid(), deps, ['u32', 'ref_u32', 'tok']))
    for quals in ('unsafe ', 'extern "C" ', 'unsafe extern "C" '):
        progs.append(c03_program(pid(), 'bound', ['u32', 'u32'], quals=quals))
        progs.append(c03_program(pid(), 'bound', ['u32', 'u32'], quals=quals, in_module=True))
    progs.append(c03_program(pid(), 'gen', ['mutref', 'arr', 'tup', 'n1']))
    progs.append(c03_program(pid(), 'impl', ['mut_u32', 'u32']))
    progs.append(c03_program(pid(), 'impl', ['wild', 'refpat', 's']))
    # lifetimes / borrowed returns / const generics: dedicated shapes
    src = PRELUDE + '''
#[::entrait::entrait(pub Pick)]
pub fn pick<'a, 'b, D: HasId>(deps: &'a D, x: &'a u32, y: &'b u32) -> &'a u32 { if deps.id() > *y { x } else { x } }
#[::entrait::entrait(pub Arr)]
pub fn arr<D, const K: usize>(deps: &D, a: [u8; K]) -> usize { K + a.len() }
#[::entrait::entrait(pub FromDeps)]
pub fn from_deps<'a>(deps: &'a Cfg, _k: u32) -> &'a u32 { &deps.id }
#[::entrait::entrait(pub Wh)]
pub fn wh<D, T>(deps: &D, t: T) -> u64 where D: HasId, T: Into<u64> + Copy { rt::mix(deps.id() as u64, t.into()) }
'''
    h = 'c03_life_h'
    src += harness_head(h) + '''    let via: for<'a, 'b> fn(&'a Impl<App>, &'a u32, &'b u32) -> &'a u32 = <Impl<App> as Pick>::pick;
    let dir: for<'a, 'b> fn(&'a Impl<App>, &'a u32, &'b u32) -> &'a u32 = pick::<Impl<App>>;
    let v2: fn(&Impl<App>, [u8; 3]) -> usize = <Impl<App> as Arr<3>>::arr;
    let d2: fn(&Impl<App>, [u8; 3]) -> usize = arr::<Impl<App>, 3>;
    let v3: for<'a> fn(&'a Cfg, u32) -> &'a u32 = <Cfg as FromDeps>::from_deps;
    let d3: for<'a> fn(&'a Cfg, u32) -> &'a u32 = from_deps;
    let v4: fn(&Impl<App>, u16) -> u64 = <Impl<App> as Wh<u16>>::wh;
    let d4: fn(&Impl<App>, u16) -> u64 = wh::<Impl<App>, u16>;
    let app = Impl::new(App { id: kani::any(), tag: 0 });
    let a: u32 = kani::any(); let b: u32 = kani::any();
    assert!(rt::addr(via(&app, &a, &b)) == rt::addr(dir(&app, &a, &b)));
    assert!(v2(&app, [1, 2, 3]) == d2(&app, [1, 2, 3]));
    let t: u16 = kani::any();
    assert!(v4(&app, t) == d4(&app, t));
    let _ = (v3, d3);
    kani::cover!(true);
}
'''
    progs.append(Program('c03_life', 'lifetimes, const generics, borrowed returns, where-bounded generic', src, [h], ['C03']))
    # where-clause predicates that relate lifetime parameters (they must stay with the lifetimes, on the method): named-generic,
    # `impl Trait`, no_deps and module dependencies
    src = PRELUDE + '''
#[::entrait::entrait(pub Outl)]
pub fn outl<'a, 'b, D: HasId>(deps: &D, x: &'a u32, y: &'b u32) -> &'b u32 where 'a: 'b { if deps.id() > *y { x } else { y } }
#[::entrait::entrait(pub Outl2)]
pub fn outl2<'a, 'b>(deps: &impl HasId, x: &'a u32, y: &'b u32) -> &'b u32 where 'a: 'b { if deps.id() > *y { x } else { y } }
#[::entrait::entrait(pub Outl3, no_deps)]
pub fn outl3<'a, 'b>(x: &'a u32, y: &'b u32) -> &'b u32 where 'a: 'b { if *x > *y { x } else { y } }
#[::entrait::entrait(pub OutlM)]
pub mod outl_m {
    use super::HasId;
    pub fn outl4<'a, 'b, D: HasId>(deps: &D, x: &'a u32, y: &'b u32) -> &'b u32 where 'a: 'b { if deps.id() > *y { x } else { y } }
}
'''
    h = 'c03_outlives_h'
    src += harness_head(h) + '''    let app = Impl::new(App { id: kani::any(), tag: 0 });
    let a: u32 = kani::any(); let b: u32 = kani::any();
    assert!(rt::addr(app.outl(&a, &b)) == rt::addr(outl(&app, &a, &b)));
    assert!(rt::addr(app.outl2(&a, &b)) == rt::addr(outl2(&app, &a, &b)));
    assert!(rt::addr(app.outl3(&a, &b)) == rt::addr(outl3(&a, &b)));
    assert!(rt::addr(app.outl4(&a, &b)) == rt::addr(outl_m::outl4(&app, &a, &b)));
    kani::cover!(true);
}
'''
    progs.append(Program('c03_outlives', "where-clause lifetime predicates ('a: 'b) with named-generic / impl Trait / no_deps / module dependencies", src, [h], ['C03']))
    return progs


# ---------------------------------------------------------------------------
# C04: availability iff the declared bounds (+ Sync + 'static [+ Send]) hold
# ---------------------------------------------------------------------------

def c04_program(pid, decl, by_value=False, module=False, opts=''):
    """decl: how bounds A and B are declared on the deps parameter"""
    forms = {
        'inline': ('<D: BA + BB>', 'deps: {r}D', ''),
        'where': ('<D>', 'deps: {r}D', ' where D: BA + BB'),
        'impl': ('', 'deps: {r}{lp}impl BA + BB{rp}', ''),
        'split': ('<D: BA>', 'deps: {r}D', ' where D: BB'),
        'where2': ('<D>', 'deps: {r}D', ' where D: BA, D: BB'),
        'none': ('<D>', 'deps: {r}D', ''),
    }
    gen, param, where = forms[decl]
    r = '' if by_value else '&'
    lp, rp = ('(', ')') if (not by_value and decl == 'impl') else ('', '')
    param = param.format(r=r, lp=lp, rp=rp)
    o = f', {opts}' if opts else ''
    src = PRELUDE + PROBE + '''
pub trait BA { fn a(&self) -> u32; }
pub trait BB { fn b(&self) -> u32; }
pub struct Good; pub struct NoA; pub struct NoB;
pub struct NotSync(pub core::cell::Cell<u32>);
pub struct NotSend(pub core::marker::PhantomData<*const u8>);
unsafe impl Sync for NotSend {}
pub struct NotStatic<'x>(pub &'x u32);
macro_rules! both { ($($t:ty),*) => { $( impl BA for Impl<$t> { fn a(&self) -> u32 { 1 } } impl BB for Impl<$t> { fn b(&self) -> u32 { 2 } }
                                         impl BA for $t { fn a(&self) -> u32 { 1 } } impl BB for $t { fn b(&self) -> u32 { 2 } } )* } }
both!(Good, NotSync, NotSend);
impl<'x> BA for Impl<NotStatic<'x>> { fn a(&self) -> u32 { 1 } } impl<'x> BB for Impl<NotStatic<'x>> { fn b(&self) -> u32 { 2 } }
impl<'x> BA for NotStatic<'x> { fn a(&self) -> u32 { 1 } } impl<'x> BB for NotStatic<'x> { fn b(&self) -> u32 { 2 } }
impl BB for Impl<NoA> { fn b(&self) -> u32 { 2 } } impl BB for NoA { fn b(&self) -> u32 { 2 } }
impl BA for Impl<NoB> { fn a(&self) -> u32 { 1 } } impl BA for NoB { fn a(&self) -> u32 { 1 } }
'''
    uses = 'deps.a() + deps.b()' if decl != 'none' else '7'
    fn = f'pub fn f1{gen}({param}, x: u32) -> u32{where} {{ x.wrapping_add({uses}) }}'
    if module:
        fn2_gen, fn2_param, fn2_where = forms['none']
        src += (f'#[::entrait::entrait(pub Tr{o})]\npub mod m {{\n    use super::*;\n    {fn}\n'
                f'    pub fn f2<D: BB>(deps: &D, x: u32) -> u32 {{ x ^ deps.b() }}\n}}\n')
    else:
        src += f'#[::entrait::entrait(pub Tr{o})]\n{fn}\n'
    src += probe_impl('Tr')
    mockable = 'mockall = true' in opts or ('unimock = true' in opts and 'mock_api' in opts)
    h = f'{pid}_h'
    src += harness_head(h)
    pp = lambda t: f'Probe::<{t}>({PH}).yes()'
    needs_ab = decl != 'none'
    src += f'    assert!({pp("Impl<Good>")}, "Impl<T> for a qualifying T");\n'
    if needs_ab:
        src += f'    assert!(!{pp("Impl<NoA>")}, "declared bound BA not dropped");\n'
        src += f'    assert!(!{pp("Impl<NoB>")}, "declared bound BB not dropped");\n'
    elif module:
        src += f'    assert!({pp("Impl<NoA>")}, "no undeclared requirement");\n'
        src += f'    assert!(!{pp("Impl<NoB>")}, "bound contributed by the second function");\n'
    else:
        src += f'    assert!({pp("Impl<NoA>")} && {pp("Impl<NoB>")}, "no undeclared requirement");\n'
    src += f'    assert!(!{pp("Impl<NotSync>")}, "T: Sync is required");\n'
    if by_value:
        src += f'    assert!(!{pp("Impl<NotSend>")}, "by-value receivers require T: Send");\n'
    else:
        src += f'    assert!({pp("Impl<NotSend>")}, "T: Send is not required for by-reference receivers");\n'
    if not mockable:
        src += f'    assert!({pp("Good")}, "without mock support every qualifying type gets the impl, not only Impl<T>");\n'
        if needs_ab:
            src += f'    assert!(!{pp("NoA")});\n'
    else:
        src += f'    assert!(!{pp("Good")}, "a mockable trait is implemented for Impl<T> only");\n'
    # behaviour for all argument values
    if not by_value:
        src += ('    let app = Impl::new(Good); let x: u32 = kani::any();\n'
                f'    assert!(app.f1(x) == {"m::" if module else ""}f1(&app, x));\n')
    src += '    kani::cover!(true);\n}\n'
    # 'static: a non-'static T must not qualify (checked by a function that only type checks for 'static)
    return Program(pid, f'bounds decl={decl} by_value={by_value} module={module} opts={opts!r}', src, [h], ['C04'])


def c04_corpus(tier, seed):
    progs = []
    k = 0

    def pid():
        nonlocal k
        k += 1
        return f'c04_{k:03d}'
    for decl in ('inline', 'where', 'impl', 'split', 'where2', 'none'):
        progs.append(c04_program(pid(), decl))
        progs.append(c04_program(pid(), decl, module=True))
    for decl in ('inline', 'impl', 'none'):
        progs.append(c04_program(pid(), decl, by_value=True))
    for opts in ('mockall = false', 'unimock = false', 'mock_api = TrMock', 'unimock = false, mock_api = TrMock', 'export', 'mockall = false, export = true'):
        progs.append(c04_program(pid(), 'inline', opts=opts))
        progs.append(c04_program(pid(), 'split', module=True, opts=opts))
    return progs


# ---------------------------------------------------------------------------
# C10: is the mock implementation there? (Unimock: Trait), in test and non-test builds, feature on
# ---------------------------------------------------------------------------

def c10_program(pid, macro, opts, derive_test, derive_nontest, kind='fn'):
    """derive_*: is a unimock derivation expected in a cfg(test) / non-test build.  Observables (rustc-decided):
    `Unimock: Trait` holds iff the derivation is compiled in OR the trait is blanket-implemented (not mockable);
    a plain application type has the trait iff it is blanket-implemented."""
    o = f', {opts}' if opts else ''
    mockable = derive_test      # a derivation requested for this invocation (gated or not) <=> impl for Impl<T> only
    src = PRELUDE + PROBE
    if kind == 'fn':
        src += f'#[::entrait::{macro}(pub Tr{o})]\npub fn f1<D>(deps: &D, x: u32) -> u32 {{ x }}\n'
    elif kind == 'mod':
        src += f'#[::entrait::{macro}(pub Tr{o})]\npub mod m {{ pub fn f1<D>(deps: &D, x: u32) -> u32 {{ x }} pub fn f2<D>(deps: &D, x: u32) -> u32 {{ x }} }}\n'
    else:
        src += f'#[::entrait::{macro}({opts})]\npub trait Tr {{ fn f1(&self, x: u32) -> u32; }}\n'
    src += probe_impl('Tr') + 'pub struct Plain;\n'
    h = f'{pid}_h'
    src += harness_head(h)
    src += f'    let has_mock = Probe::<::unimock::Unimock>({PH}).yes();\n'
    if kind == 'trait':
        # entraited traits are implemented for Impl<T> only; Unimock gets the trait from the derivation alone
        src += (f'    #[cfg(test)]\n    assert!(has_mock == {str(derive_test).lower()}, "mock implementation in a cfg(test) build");\n'
                f'    #[cfg(not(test))]\n    assert!(has_mock == {str(derive_nontest).lower()}, "mock implementation in a non-test build");\n')
    else:
        src += (f'    let plain = Probe::<Plain>({PH}).yes();\n'
                f'    assert!(plain == {str(not mockable).lower()}, "blanket impl iff no mock derivation is requested");\n'
                f'    #[cfg(test)]\n    assert!(has_mock == {str(derive_test or not mockable).lower()}, "mock implementation in a cfg(test) build");\n'
                f'    #[cfg(not(test))]\n    assert!(has_mock == {str(derive_nontest or not mockable).lower()}, "mock implementation in a non-test build");\n')
    src += '    kani::cover!(true);\n}\n'
    return Program(pid, f'mock presence macro={macro} opts={opts!r} kind={kind} derive test={derive_test} nontest={derive_nontest}', src, [h], ['C10'])


def c10_corpus(tier, seed):
    """built with the `unimock` cargo feature: `entrait` = entrait_unimock, `entrait_export` = entrait_export_unimock"""
    P_ = []
    k = 0

    def pid():
        nonlocal k
        k += 1
        return f'c10_{k:03d}'
    for kind in ('fn', 'mod'):
        P_.append(c10_program(pid(), 'entrait', 'mock_api = M', True, False, kind))
        P_.append(c10_program(pid(), 'entrait', '', False, False, kind))
        P_.append(c10_program(pid(), 'entrait', 'unimock = false, mock_api = M', False, False, kind))
        P_.append(c10_program(pid(), 'entrait', 'mock_api = M, export', True, True, kind))
        P_.append(c10_program(pid(), 'entrait', 'mock_api = M, export = false', True, False, kind))
        P_.append(c10_program(pid(), 'entrait_export', 'mock_api = M', True, True, kind))
        P_.append(c10_program(pid(), 'entrait_export', 'mock_api = M, export = false', True, False, kind))
        P_.append(c10_program(pid(), 'entrait_export', 'mock_api = M, unimock = false', False, False, kind))
    P_.append(c10_program(pid(), 'entrait', '', True, False, 'trait'))
    P_.append(c10_program(pid(), 'entrait', 'unimock = false', False, False, 'trait'))
    P_.append(c10_program(pid(), 'entrait_export', '', True, True, 'trait'))
    P_.append(c10_program(pid(), 'entrait', 'mock_api = M', True, False, 'trait'))
    return P_




# ---------------------------------------------------------------------------
# C09: what is written on an entraited trait is still in force afterwards (rustc-decided, compile only)
# ---------------------------------------------------------------------------

def c09_corpus(tier, seed):
    """Each program only compiles if a particular part of the user's trait survived the macro: a where clause on the trait, a
    where clause on a (sync / async) generic method, supertraits, generic parameters, `?Send` next to a mock option.
    (Parts the unchanged tree is known to drop - trait-level attributes, `unsafe`, default bodies, associated types - are
    recorded findings judged by Engine S and are not used here.)"""
    progs = []
    k = 0

    def add(desc, body):
        nonlocal k
        k += 1
        progs.append(Program(f'c09_{k:03d}', desc, PRELUDE + body, [], ['C09']))
    add('where clause on a non-generic trait is kept (users rely on `Self: Send`)', '''
#[::entrait::entrait]
pub trait Job where Self: Send { fn run(&self, q1: u32) -> u32; }
pub fn req_send<T: Send>(_: T) {}
pub fn spawnable<J: Job + 'static>(j: J) { req_send(j) }
''')
    add('generic trait with a supertrait; sync and async generic methods with their own where clauses; method attribute', '''
#[::entrait::entrait]
pub trait Render<X: Copy + Into<u64> + Send + Sync>: Sync {
    fn show<V>(&self, v: V, x: X) -> u64 where V: Into<u64> + Send;
    async fn later<V>(&self, v: V, x: X) -> u64 where V: Into<u64> + Send;
    #[must_use]
    fn tagged(&self) -> u32;
}
pub struct P;
impl Render<u8> for P {
    fn show<V>(&self, v: V, x: u8) -> u64 where V: Into<u64> + Send { v.into() + x as u64 }
    async fn later<V>(&self, v: V, x: u8) -> u64 where V: Into<u64> + Send { rt::YieldOnce(false).await; v.into() ^ x as u64 }
    fn tagged(&self) -> u32 { 1 }
}
pub fn use_it(app: &Impl<P>) -> u64 { app.show(1u32, 2u8) + rt::block_on(app.later(3u16, 4u8)) + app.tagged() as u64 }
pub fn needs_sync<T: Render<u8>>(t: &T) { fn s<U: Sync + ?Sized>(_: &U) {} s(t) }
''')
    add('?Send next to a mock option: the future of an implementation may hold an Rc across an await', '''
use std::rc::Rc;
#[::entrait::entrait(?Send, mockall)]
pub trait Session { async fn user_name(&self, q1: u32) -> Rc<str>; }
pub struct S0;
impl Session for S0 {
    async fn user_name(&self, q1: u32) -> Rc<str> { let r: Rc<str> = Rc::from("x"); rt::YieldOnce(false).await; let _ = q1; r }
}
pub fn use_it(app: &Impl<S0>) -> usize { rt::block_on(app.user_name(1)).len() }
''')
    add('delegate_by = ref: generics, where clause and borrowed return survive on the trait behind the dyn', '''
#[::entrait::entrait(delegate_by = ref)]
pub trait Store<K: Copy + Send + Sync + 'static>: 'static where K: Into<u64> {
    fn get<'a>(&'a self, k: K, fallback: &'a u64) -> &'a u64;
}
pub struct Mem { pub v: u64 }
impl Store<u8> for Mem { fn get<'a>(&'a self, k: u8, fallback: &'a u64) -> &'a u64 { if k == 0 { &self.v } else { fallback } } }
pub struct AppS { pub mem: Mem }
impl AsRef<dyn Store<u8>> for AppS { fn as_ref(&self) -> &(dyn Store<u8> + 'static) { &self.mem } }
pub fn use_it(app: &Impl<AppS>, f: &u64) -> u64 { *app.get(0u8, f) }
''')
    return progs

# ---------------------------------------------------------------------------
# C11: the unimock wiring compiles (rustc-decided; Kani cannot build the unimock runtime)
# ---------------------------------------------------------------------------

def c11_corpus(tier, seed):
    """compile-only, unimock feature on, cfg(test): every un-mock call `f(self, <trait method parameter names>)` that unimock
    generates from the attribute arguments must type-check against the original function. Dependencies are entraited leaf traits
    (mockable themselves) or unbounded generics, as `Unimock` must satisfy them."""
    progs = []
    k = 0
    leaf = '''
#[::entrait::entrait(pub Leaf, mock_api = LeafMock)]
pub fn leaf<D>(deps: &D, q1: u32) -> u32 { q1 ^ 5 }
'''

    def add(desc, body):
        nonlocal k
        k += 1
        progs.append(Program(f'c11_{k:03d}', desc, PRELUDE + leaf + body, [], ['C11']))
    add('generic deps, parameter spelled like the fn, mock_api', '''
#[::entrait::entrait(pub Scale, mock_api = ScaleMock)]
pub fn scale(deps: &impl Leaf, scale: u32, plus: u32) -> u32 { deps.leaf(scale).wrapping_add(plus) }
''')
    add('no_deps, parameter spelled like the fn, mock_api', '''
#[::entrait::entrait(pub Offset, no_deps, mock_api = OffsetMock)]
pub fn offset(offset: u32, minus: u32) -> u32 { offset.wrapping_sub(minus) }
''')
    add('patterns (tuple, wildcard, tuple struct) with mock_api, generic and no_deps', '''
#[::entrait::entrait(pub Pat1, mock_api = Pat1Mock)]
pub fn pat1(deps: &impl Leaf, (a, b): (u32, u32), _: u8, N(c): N) -> u32 { deps.leaf(a) ^ b ^ c }
#[::entrait::entrait(pub Pat2, no_deps, mock_api = Pat2Mock)]
pub fn pat2((a, b): (u32, u32), _: u8, pat2: u32) -> u32 { a ^ b ^ pat2 }
''')
    add('module with mock_api: several fns, one parameter spelled like its fn, async', '''
#[::entrait::entrait(pub Arith, mock_api = ArithMock)]
pub mod arith {
    use super::*;
    pub fn scaled(deps: &impl Leaf, scaled: u32) -> u32 { deps.leaf(scaled) }
    pub fn sub<D: Leaf>(deps: &D, q1: u32, q0: u32) -> u32 { q1.wrapping_sub(q0) ^ deps.leaf(1) }
    pub async fn later(deps: &impl Leaf, q1: u32) -> u32 { q1 ^ deps.leaf(2) }
}
''')
    add('module with no_deps and mock_api', '''
#[::entrait::entrait(pub Pure, no_deps, mock_api = PureMock)]
pub mod pure_fns {
    pub fn sub(q1: u32, q0: u32) -> u32 { q1.wrapping_sub(q0) }
    pub fn twice(twice: u32) -> u32 { twice.wrapping_mul(2) }
}
''')
    add('concrete dependency with mock_api; by-value generic deps; borrowed return', '''
#[::entrait::entrait(pub Conc, mock_api = ConcMock)]
pub fn conc(deps: &Cfg, q1: u32) -> u32 { deps.id ^ q1 }
#[::entrait::entrait(pub ByVal, mock_api = ByValMock)]
pub fn by_val<D: Leaf>(deps: D, q1: u32) -> u32 { deps.leaf(q1) }
#[::entrait::entrait(pub Borrowing, mock_api = BorrowingMock)]
pub fn borrowing<'a>(deps: &'a impl Leaf, q1: &'a u32) -> &'a u32 { q1 }
''')
    add('entraited trait with and without mock_api, delegate_by = ref', '''
#[::entrait::entrait(mock_api = TrMock)]
pub trait Tr1 { fn m1(&self, q1: u32, q0: u32) -> u32; }
#[::entrait::entrait(delegate_by = ref)]
pub trait Tr2: 'static { fn m2(&self, m2: u32) -> u32; }
''')
    return progs


# ---------------------------------------------------------------------------
# C12: Send by default, ?Send honoured, exact Output; C14: allocation counter
# ---------------------------------------------------------------------------

def c12_corpus(tier, seed):
    progs = []
    src = PRELUDE + '''
use std::rc::Rc;
#[::entrait::entrait(pub A1)]
pub async fn a1(deps: &impl HasId, x: u32) -> u64 { rt::YieldOnce(false).await; rt::mix(deps.id() as u64, x as u64) }
#[::entrait::entrait(pub A2)]
pub async fn a2<D>(deps: &D, x: u32) { rt::YieldOnce(false).await; rt::mark((x & 1) as usize); }
#[::entrait::entrait(pub A3, ?Send)]
pub async fn a3<D>(deps: &D, x: u32) -> Rc<u32> { let r = Rc::new(x); rt::YieldOnce(false).await; r }
#[::entrait::entrait(pub A4)]
pub async fn a4<'a, D>(deps: &'a D, x: &'a u32) -> &'a u32 { rt::YieldOnce(false).await; x }
#[::entrait::entrait(pub M1)]
pub mod m1 {
    use super::*;
    pub async fn b1(deps: &impl HasId, x: u32) -> u64 { rt::YieldOnce(false).await; rt::mix(3, x as u64) }
    pub async fn b2<D>(deps: &D, x: u32) { rt::YieldOnce(false).await; rt::mark(2 + (x & 1) as usize); }
}
#[::entrait::entrait(pub M2, ?Send)]
pub mod m2 {
    use super::*;
    pub async fn c1<D>(deps: &D, x: u32) -> Rc<u32> { let r = Rc::new(x); rt::YieldOnce(false).await; r }
}
#[::entrait::entrait]
pub trait T1 { async fn t1(&self, x: u32) -> u64; async fn t2(&self, x: u32); }
#[::entrait::entrait(?Send)]
pub trait T2 { async fn u1(&self, x: u32) -> Rc<u32>; }
pub struct Prov;
impl T1 for Prov { async fn t1(&self, x: u32) -> u64 { rt::YieldOnce(false).await; x as u64 + 1 } async fn t2(&self, x: u32) { rt::YieldOnce(false).await; rt::mark(4); } }
impl T2 for Prov { async fn u1(&self, x: u32) -> Rc<u32> { let r = Rc::new(x); rt::YieldOnce(false).await; r } }
'''
    h = 'c12_001_h'
    src += harness_head(h) + '''    let app = Impl::new(App { id: kani::any(), tag: 0 });
    let x: u32 = kani::any();
    // Send by default (rustc-decided), exact Output (type ascription)
    let f = rt::is_send(app.a1(x));
    let r: u64 = rt::block_on(f);
    assert!(r == rt::block_on(a1(&app, x)), "driven to completion with the same result");
    rt::reset();
    let u: () = rt::block_on(rt::is_send(app.a2(x)));
    assert!(rt::marks((x & 1) as usize) == 1, "unit async fn really ran, exactly once");
    let rc: Rc<u32> = rt::block_on(app.a3(x));
    assert!(*rc == x);
    let y: &u32 = rt::block_on(rt::is_send(app.a4(&x)));
    assert!(rt::addr(y) == rt::addr(&x));
    let r: u64 = rt::block_on(rt::is_send(app.b1(x)));
    assert!(r == rt::block_on(m1::b1(&app, x)));
    rt::reset();
    let u: () = rt::block_on(rt::is_send(app.b2(x)));
    assert!(rt::marks(2 + (x & 1) as usize) == 1, "module unit async fn ran exactly once");
    let rc: Rc<u32> = rt::block_on(app.c1(x));
    assert!(*rc == x);
    let p = Impl::new(Prov);
    let r: u64 = rt::block_on(rt::is_send(p.t1(x)));
    assert!(r == x as u64 + 1);
    rt::reset();
    let u: () = rt::block_on(rt::is_send(p.t2(x)));
    assert!(rt::marks(4) == 1);
    let rc: Rc<u32> = rt::block_on(p.u1(x));
    assert!(*rc == x);
    kani::cover!(true);
}
'''
    progs.append(Program('c12_001', 'async fn/mod/trait: Send default, ?Send with Rc, exact Output, completion', src, [h], ['C12']))
    # dependency inversion with ?Send and async (static) + async_trait (dynamic)
    src = PRELUDE + '''
use std::rc::Rc;
#[::entrait::entrait(pub RImpl, delegate_by = DelegateR, ?Send)]
pub trait R { async fn shared(&self, x: u32) -> Rc<u32>; }
pub struct TA;
#[::entrait::entrait]
impl RImpl for TA { pub async fn shared<D>(deps: &D, x: u32) -> Rc<u32> { let r = Rc::new(x); rt::YieldOnce(false).await; r } }
impl DelegateR<Self> for App { type Target = TA; }
#[::entrait::entrait(pub SImpl, delegate_by = DelegateS)]
pub trait S_ { async fn s1(&self, x: u32) -> u64; async fn s2(&self, x: u32); }
#[::entrait::entrait]
impl SImpl for TA {
    pub async fn s1(deps: &impl HasId, x: u32) -> u64 { rt::YieldOnce(false).await; rt::mix(deps.id() as u64, x as u64) }
    pub async fn s2<D>(deps: &D, x: u32) { rt::YieldOnce(false).await; rt::mark(5); }
}
impl DelegateS<Self> for App { type Target = TA; }
'''
    h = 'c12_002_h'
    src += harness_head(h) + '''    let app = Impl::new(App { id: kani::any(), tag: 0 });
    let x: u32 = kani::any();
    let rc: Rc<u32> = rt::block_on(app.shared(x));
    assert!(*rc == x);
    let r: u64 = rt::block_on(rt::is_send(app.s1(x)));
    assert!(r == rt::block_on(TA::s1(&app, x)));
    rt::reset();
    let u: () = rt::block_on(rt::is_send(app.s2(x)));
    assert!(rt::marks(5) == 1, "impl-block unit async fn ran exactly once");
    kani::cover!(true);
}
'''
    progs.append(Program('c12_002', 'async dependency inversion: ?Send forwarded to the delegation-target trait; Send default; completion', src, [h], ['C12']))
    return progs


COUNTING_ALLOC = '''
pub static mut ALLOCS: u32 = 0;
pub unsafe fn counting_alloc(layout: std::alloc::Layout) -> *mut u8 {
    ALLOCS += 1;
    std::alloc::alloc_zeroed(layout)
}
pub fn allocs() -> u32 { unsafe { ALLOCS } }
'''


def c14_corpus(tier, seed):
    src = PRELUDE + COUNTING_ALLOC + '''
#[::entrait::entrait(pub L1)]
pub fn l1(deps: &impl L2, x: u32) -> u32 { deps.l2(x).wrapping_add(1) }
#[::entrait::entrait(pub L2)]
pub fn l2(deps: &impl L3, x: u32) -> u32 { deps.l3(x) ^ 3 }
#[::entrait::entrait(pub L3)]
pub fn l3<D>(deps: &D, x: u32) -> u32 { x.rotate_left(3) }
#[::entrait::entrait(pub A1)]
pub async fn a1(deps: &impl A2, x: u32) -> u32 { deps.a2(x).await.wrapping_add(1) }
#[::entrait::entrait(pub A2)]
pub async fn a2<D>(deps: &D, x: u32) -> u32 { rt::YieldOnce(false).await; x ^ 9 }
#[::entrait::entrait(pub AL)]
pub async fn al<'a, 'b, D>(deps: &'a D, h: &'a u32, i: &'b u32) -> &'a u32 { rt::YieldOnce(false).await; h }
#[::entrait::entrait(pub IT)]
pub fn it<D>(deps: &D, n: u32) -> impl Iterator<Item = u32> { (0..n).map(|x| x.wrapping_mul(2)) }
#[::entrait::entrait(pub A3)]
pub async fn a3(deps: &(impl A2 + L3), x: u32) -> u32 { deps.a2(deps.l3(x)).await }
#[::entrait::entrait(pub A4)]
pub async fn a4<D>(deps: &D, x: u32) -> u32 where D: A2, D: L3 { deps.a2(deps.l3(x)).await ^ 1 }
#[::entrait::entrait(pub MM)]
pub mod mm { use super::*; pub fn m1<D>(deps: &D, x: u32) -> u32 { x.wrapping_add(1) } pub async fn m2<D>(deps: &D, x: u32) -> u32 { rt::YieldOnce(false).await; x.wrapping_add(2) } }
#[::entrait::entrait]
pub trait TT { fn t1(&self, x: u32) -> u32; async fn t2(&self, x: u32) -> u32; async fn t3<'a>(&self, h: &'a u32, i: &'a u32) -> &'a u32; }
pub struct Prov;
impl TT for Prov { fn t1(&self, x: u32) -> u32 { x.wrapping_add(5) } async fn t2(&self, x: u32) -> u32 { rt::YieldOnce(false).await; x.wrapping_add(6) }
    async fn t3<'a>(&self, h: &'a u32, i: &'a u32) -> &'a u32 { rt::YieldOnce(false).await; if *h > *i { h } else { i } } }
#[::entrait::entrait(pub RImpl, delegate_by = DelegateR)]
pub trait R { fn r1(&self, x: u32) -> u32; async fn r2(&self, x: u32) -> u32; async fn r3<'a>(&self, h: &'a u32) -> &'a u32; }
pub struct TA;
#[::entrait::entrait]
impl RImpl for TA { pub fn r1<D>(deps: &D, x: u32) -> u32 { x.wrapping_add(7) } pub async fn r2<D>(deps: &D, x: u32) -> u32 { rt::YieldOnce(false).await; x.wrapping_add(8) }
    pub async fn r3<'a, D>(deps: &D, h: &'a u32) -> &'a u32 { rt::YieldOnce(false).await; h } }
impl DelegateR<Self> for App { type Target = TA; }
// positive control: this one does allocate
#[::entrait::entrait(pub BX)]
pub fn bx<D>(deps: &D, x: u32) -> u32 { *Box::new(x) }
'''
    hs = []

    def harness(name, body):
        nonlocal src
        src += ('#[cfg(kani)]\n#[kani::proof]\n#[kani::unwind(4)]\n#[kani::stub(std::alloc::alloc, counting_alloc)]\n'
                f'fn {name}() {{\n    let app = Impl::new(App {{ id: kani::any(), tag: 0 }});\n    let x: u32 = kani::any();\n{body}    kani::cover!(true);\n}}\n')
        hs.append(name)

    def pair(direct, via):
        return (f'    let a0 = allocs(); let d = {direct}; let a1 = allocs(); let v = {via}; let a2 = allocs();\n'
                f'    assert!(d == v);\n    assert!(a1 - a0 == a2 - a1, "as many heap allocations through the trait as calling the function directly");\n'
                f'    assert!(a1 == a0, "these functions do not allocate at all");\n')
    harness('c14_sync_chain', pair('l1(&app, x)', 'app.l1(x)'))
    harness('c14_async_chain', pair('rt::block_on(a1(&app, x))', 'rt::block_on(app.a1(x))'))
    harness('c14_async_lifetimes', '    let i: u32 = kani::any();\n' + pair('*rt::block_on(al(&app, &x, &i))', '*rt::block_on(app.al(&x, &i))'))
    harness('c14_impl_trait_return', '    kani::assume(x < 3);\n' + pair('it(&app, x).count()', 'app.it(x).count()').replace('#[kani::unwind(4)]', ''))
    harness('c14_fan_in', pair('(rt::block_on(a3(&app, x)), rt::block_on(a4(&app, x)))', '(rt::block_on(app.a3(x)), rt::block_on(app.a4(x)))'))
    harness('c14_trait_lifetimes', '    let p = Impl::new(Prov); let i: u32 = kani::any();\n'
            + pair('(*rt::block_on(Prov.t3(&x, &i)), *rt::block_on(TA::r3(&app, &x)))', '(*rt::block_on(p.t3(&x, &i)), *rt::block_on(app.r3(&x)))'))
    harness('c14_module', pair('(mm::m1(&app, x), rt::block_on(mm::m2(&app, x)))', '(app.m1(x), rt::block_on(app.m2(x)))'))
    src += ''
    harness('c14_trait', '    let p = Impl::new(Prov);\n' + pair('(Prov.t1(x), rt::block_on(Prov.t2(x)))', '(p.t1(x), rt::block_on(p.t2(x)))'))
    harness('c14_inversion', pair('(TA::r1(&app, x), rt::block_on(TA::r2(&app, x)))', '(app.r1(x), rt::block_on(app.r2(x)))'))
    # control: the counter is alive
    src += ('#[cfg(kani)]\n#[kani::proof]\n#[kani::unwind(4)]\n#[kani::stub(std::alloc::alloc, counting_alloc)]\n'
            'fn c14_control() {\n    let app = Impl::new(App { id: 0, tag: 0 });\n    let a0 = allocs(); let v = app.bx(kani::any()); let a1 = allocs();\n'
            '    assert!(a1 - a0 == 1, "positive control: the allocation counter observes Box::new");\n    kani::cover!(true);\n}\n')
    hs.append('c14_control')
    return [Program('c14_001', 'allocation counts: sync/async chains, lifetimes, fan-in deps, impl Trait return, module, entraited trait (also with method lifetimes), static inversion; control', src, hs, ['C14'])]


# ---------------------------------------------------------------------------
# C19: hostile scope
# ---------------------------------------------------------------------------

def c19_corpus(tier, seed):
    # no `use` of anything from entrait; local items named like everything the macro refers to
    src = '''#![allow(unused, non_snake_case, non_camel_case_types)]
use crate::rt;
pub struct Impl; pub struct Future; pub struct AsRef; pub struct Borrow; pub struct Box;
pub mod core { pub struct NotCore; }
pub mod entrait { pub struct NotEntrait; }
pub trait HasId { fn id(&self) -> u32; }
pub struct App { pub id: u32 }
impl HasId for ::entrait::Impl<App> { fn id(&self) -> u32 { self.id } }
#[::entrait::entrait(pub F1)]
pub fn f1(deps: &impl HasId, q1: u32, q0: u32) -> u64 { rt::mix(rt::mix(deps.id() as u64, q1 as u64), q0 as u64) }
#[::entrait::entrait(pub F2)]
pub async fn f2<D>(deps: &D, q1: u32) -> u32 { rt::YieldOnce(false).await; q1 }
#[::entrait::entrait(pub MM)]
pub mod mm { pub fn g1<D>(deps: &D, x: u32) -> u32 { x } }
#[::entrait::entrait]
pub trait T0 { fn t0(&self, x: u32) -> u32; }
#[::entrait::entrait(delegate_by = ref)]
pub trait T1 { fn t1(&self, x: u32) -> u32; }
#[::entrait::entrait(delegate_by = Borrow)]
pub trait T2 { fn t2(&self, x: u32) -> u32; }
#[::entrait::entrait(pub RImpl, delegate_by = DelegateR)]
pub trait R { fn r1(&self, x: u32) -> u32; }
#[::entrait::entrait(pub QImpl, delegate_by = ref)]
pub trait Q { fn q1(&self, x: u32) -> u32; }
pub struct TA;
#[::entrait::entrait]
impl RImpl for TA { pub fn r1<D>(deps: &D, x: u32) -> u32 { x + 1 } }
#[::entrait::entrait(ref)]
impl QImpl for TA { pub fn q1<D>(deps: &D, x: u32) -> u32 { x + 2 } }
impl DelegateR<Self> for App { type Target = TA; }
pub struct Prov;
impl T0 for Prov { fn t0(&self, x: u32) -> u32 { x + 3 } }
impl T1 for Prov { fn t1(&self, x: u32) -> u32 { x + 4 } }
impl T2 for Prov { fn t2(&self, x: u32) -> u32 { x + 5 } }
pub struct AppD { pub p: Prov, pub q: TA }
impl ::core::convert::AsRef<dyn T1> for AppD { fn as_ref(&self) -> &(dyn T1 + 'static) { &self.p } }
impl ::core::borrow::Borrow<dyn T2> for AppD { fn borrow(&self) -> &(dyn T2 + 'static) { &self.p } }
impl ::core::convert::AsRef<dyn QImpl<AppD>> for AppD { fn as_ref(&self) -> &(dyn QImpl<AppD> + 'static) { &self.q } }
'''
    h = 'c19_001_h'
    src += harness_head(h) + '''    let id: u32 = kani::any(); let a: u32 = kani::any(); let b: u32 = kani::any();
    let app = ::entrait::Impl::new(App { id });
    assert!(app.f1(a, b) == f1(&app, a, b));
    assert!(rt::block_on(app.f2(a)) == a);
    assert!(app.g1(a) == a);
    assert!(app.r1(a) == a.wrapping_add(1));
    let p = ::entrait::Impl::new(Prov);
    assert!(p.t0(a) == a.wrapping_add(3));
    let d = ::entrait::Impl::new(AppD { p: Prov, q: TA });
    assert!(d.t1(a) == a.wrapping_add(4));
    assert!(d.t2(a) == a.wrapping_add(5));
    assert!(d.q1(a) == a.wrapping_add(2));
    kani::cover!(true);
}
'''
    src = src.replace('x + ', 'x.wrapping_add(').replace('wrapping_add(1 }', 'wrapping_add(1) }')
    import re
    src = re.sub(r'x\.wrapping_add\((\d) \}', r'x.wrapping_add(\1) }', src)
    p1 = Program('c19_001', 'hostile scope: no imports, local items named Impl/Future/AsRef/Borrow/Box/core/entrait, every mode and delegation kind', src, [h], ['C19'])
    # generated traits named like the marker traits the macro refers to
    src2 = '''#![allow(unused, non_snake_case, non_camel_case_types)]
use crate::rt;
pub struct App { pub id: u32 }
#[::entrait::entrait(pub Sync)]
pub fn sync<D>(deps: &D, x: u32) -> u32 { x.wrapping_add(1) }
pub mod other {
    #[::entrait::entrait(pub Send)]
    pub fn send<D>(deps: D, x: u32) -> u32 { x.wrapping_add(2) }
}
use other::Send;
'''
    h2 = 'c19_002_h'
    src2 += harness_head(h2) + '''    let a: u32 = kani::any();
    let app = ::entrait::Impl::new(App { id: 0 });
    assert!(app.sync(a) == a.wrapping_add(1), "a generated trait may be named like a marker trait");
    assert!(::entrait::Impl::new(App { id: 0 }).send(a) == a.wrapping_add(2));
    kani::cover!(true);
}
'''
    p2 = Program('c19_002', 'generated traits named Sync / Send', src2, [h2], ['C19'], tag='generated-trait-named-like-marker-trait')
    return [p1, p2]


# ---------------------------------------------------------------------------
# C08 / C02: module classification, items kept and usable; reference twins
# ---------------------------------------------------------------------------

def c08_corpus(tier, seed):
    src = PRELUDE + '''
#[::entrait::entrait(pub Api)]
pub mod api {
    use super::*;
    pub const LIMIT: u32 = 40;
    pub static BASE: u32 = 2;
    pub struct Helper(pub u32);
    impl Helper { pub fn get(&self) -> u32 { self.0 } fn hidden(&self) {} }
    macro_rules! limit { ($x:expr) => { if $x > LIMIT { LIMIT } else { $x } }; }
    pub fn capped<D>(deps: &D, x: u32) -> u32 { rt::trace(1, 0, rt::addr(deps), 1, [x as u64, 0, 0, 0, 0, 0]); limit!(x) }
    fn private_helper(x: u32) -> u32 { x ^ BASE }
    pub(crate) fn scoped<D>(deps: &D, x: u32) -> u32 { rt::trace(2, 0, rt::addr(deps), 1, [x as u64, 0, 0, 0, 0, 0]); private_helper(x) }
    pub async fn later<D>(deps: &D, x: u32) -> u32 { rt::trace(3, 0, rt::addr(deps), 1, [x as u64, 0, 0, 0, 0, 0]); rt::YieldOnce(false).await; x }
    pub unsafe fn raw<D>(deps: &D, p: *const u32) -> u32 { rt::trace(4, 0, rt::addr(deps), 0, [0; 6]); *p }
    pub extern "C" fn cabi<D>(deps: &D, x: u32) -> u32 { rt::trace(5, 0, rt::addr(deps), 1, [x as u64, 0, 0, 0, 0, 0]); x + 0 }
    pub unsafe extern "C" fn rawc<D>(deps: &D, p: *const u32) -> u32 { rt::trace(6, 0, rt::addr(deps), 0, [0; 6]); *p }
    unsafe fn danger(x: u32) -> u32 { x }
    pub(crate) async unsafe fn rawa<D>(deps: &D, x: u32) -> u32 { rt::trace(7, 0, rt::addr(deps), 0, [0; 6]); danger(x) }
    pub mod nested { pub fn not_a_method(x: u32) -> u32 { x } }
    extern "C" { pub fn outside(x: u32) -> u32; }
    pub trait Inner { fn also_not(&self); }
    pub fn last<D>(deps: &D, x: u32) -> u32 { rt::trace(8, 0, rt::addr(deps), 1, [x as u64, 0, 0, 0, 0, 0]); Helper(x).get() }
}
'''
    h = 'c08_001_h'
    src += harness_head(h) + '''    let app = Impl::new(App { id: 0, tag: 0 });
    let x: u32 = kani::any();
    rt::reset();
    assert!(app.capped(x) == api::capped(&app, x)); assert!(rt::ev(0).fn_id == 1 && rt::ev(1).fn_id == 1);
    rt::reset();
    assert!(app.scoped(x) == (x ^ api::BASE)); assert!(rt::count() == 1 && rt::ev(0).fn_id == 2);
    rt::reset();
    assert!(rt::block_on(app.later(x)) == x); assert!(rt::count() == 1 && rt::ev(0).fn_id == 3);
    rt::reset();
    assert!(unsafe { app.raw(&x) } == x); assert!(rt::count() == 1 && rt::ev(0).fn_id == 4);
    rt::reset();
    assert!(app.cabi(x) == x); assert!(rt::count() == 1 && rt::ev(0).fn_id == 5);
    rt::reset();
    assert!(unsafe { app.rawc(&x) } == x); assert!(rt::count() == 1 && rt::ev(0).fn_id == 6);
    rt::reset();
    assert!(unsafe { rt::block_on(app.rawa(x)) } == x); assert!(rt::count() == 1 && rt::ev(0).fn_id == 7);
    rt::reset();
    assert!(app.last(x) == x); assert!(rt::count() == 1 && rt::ev(0).fn_id == 8 && rt::ev(0).deps == rt::addr(&app));
    assert!(api::nested::not_a_method(x) == x && api::Helper(x).get() == x && api::LIMIT == 40);
    kani::cover!(true);
}
'''
    p1 = Program('c08_001', 'module: qualifier combinations, private fn, nested mod / extern block / impl / trait / macro_rules items, exact method set', src, [h], ['C08'])
    # requested visibility below the crate root
    src2 = PRELUDE + '''
pub mod domain {
    use crate::rt;
    #[::entrait::entrait(pub(crate) Repo)]
    pub mod repo { pub fn fetch<D>(deps: &D, x: u32) -> u32 { x } }
    #[::entrait::entrait(Priv)]
    pub mod priv_ { pub fn hidden<D>(deps: &D, x: u32) -> u32 { x } }
    pub fn uses_priv(app: &::entrait::Impl<super::App>, x: u32) -> u32 { app.hidden(x) }
}
use crate::c08_002::domain::Repo;
'''
    h2 = 'c08_002_h'
    src2 += harness_head(h2) + '''    let app = Impl::new(App { id: 0, tag: 0 });
    let x: u32 = kani::any();
    assert!(app.fetch(x) == x, "pub(crate) trait of a nested module is importable from the crate");
    assert!(domain::uses_priv(&app, x) == x, "private trait usable next to the module");
    kani::cover!(true);
}
'''
    p2 = Program('c08_002', 'module trait visibility: pub(crate) below the crate root, private next to the module', src2, [h2], ['C08', 'C13'])
    return [p1, p2]


def c02_corpus(tier, seed):
    body = '''{
        let mut acc: u64 = 17;
        let twice = |v: u64| -> u64 { v.wrapping_mul(2) };
        fn inner(z: u64) -> u64 { z ^ 0x55 }
        macro_rules! bump { ($e:expr) => { $e.wrapping_add(1) }; }
        let mut i = 0u8;
        while i < 2 { acc = rt::mix(acc, i as u64); i += 1; }
        acc = match (a & 1, b & 1) { (0, 0) => twice(acc), (0, _) => inner(acc), (_, 0) => bump!(acc), _ => { let t = acc; t.rotate_left(3) } };
        { { acc = acc ^ (a as u64) << 8; } };
        acc.wrapping_sub(b as u64);
        if a > b { return acc; };
        acc ^ 1
    }'''
    src = PRELUDE + f'''
/// documented
#[inline]
#[::entrait::entrait(pub Twin)]
#[allow(clippy::all)]
#[must_use]
pub fn twin<D>(deps: &D, a: u32, b: u32) -> u64 {body}
pub fn twin_ref<D>(deps: &D, a: u32, b: u32) -> u64 {body}
#[::entrait::entrait(pub Tc)]
#[track_caller]
pub fn tc<D>(deps: &D, a: u32) -> u32 {{ core::panic::Location::caller().line() }}
#[::entrait::entrait(pub Pa)]
pub fn pa<D>(deps: &D, #[allow(unused_variables)] a: u32, b: u32) -> u32 {{ b }}
#[::entrait::entrait(pub Mk)]
#[::verif_marker::mark(1)]
pub fn mk<D>(deps: &D, a: u32) -> u32 {{ a }}
#[::entrait::entrait(pub Mm)]
pub mod mm {{
    use super::*;
    #[::verif_marker::mark(2)]
    pub fn m1<D>(deps: &D, a: u32) -> u32 {{ a }}
    #[::verif_marker::mark(3)]
    pub fn m2<D>(deps: &D, #[allow(unused_variables)] a: u32, b: u32) -> u32 {{ b }}
}}
pub struct TA;
#[::entrait::entrait(pub RImpl, delegate_by = DelegateR)]
pub trait R {{ fn r1(&self, x: u32) -> u32; }}
#[::entrait::entrait]
impl RImpl for TA {{
    #[::verif_marker::mark(4)]
    pub fn r1<D>(deps: &D, x: u32) -> u32 {{ x }}
    pub const TAG: u32 = 9;
}}
impl DelegateR<Self> for App {{ type Target = TA; }}
'''
    h = 'c02_001_h'
    src += harness_head(h, 4) + '''    let app = Impl::new(App { id: 0, tag: 0 });
    let a: u32 = kani::any(); let b: u32 = kani::any();
    assert!(twin(&app, a, b) == twin_ref(&app, a, b), "the annotated function computes what its un-annotated twin computes");
    assert!(app.twin(a, b) == twin_ref(&app, a, b));
    assert!(pa(&app, a, b) == b && app.pa(a, b) == b, "parameter attributes stay on the function");
    rt::reset();
    assert!(app.mk(a) == a); assert!(rt::marks(1) == 1, "lower macro sees the function exactly once");
    assert!(app.m1(a) == a && app.m2(a, b) == b); assert!(rt::marks(2) == 1 && rt::marks(3) == 1);
    assert!(app.r1(a) == a); assert!(rt::marks(4) == 1);
    assert!(TA::TAG == 9, "non-fn impl items kept");
    kani::cover!(true);
}
'''
    p1 = Program('c02_001', 'reference twins, track_caller, parameter attributes, marker attribute on fn / module fn / impl-block fn', src, [h], ['C02', 'C18'],
                 tag='twins-markers')
    src2 = PRELUDE + '''
#[::entrait::entrait(pub Un)]
pub unsafe fn un<D>(deps: &D, p: *const u32) -> u32 { *p }
#[::entrait::entrait(pub Un2, ?Send)]
pub(crate) async unsafe fn un2<D>(deps: &D, p: *const u32) -> u32 { *p }
'''
    h2 = 'c02_002_h'
    src2 += harness_head(h2) + '''    let app = Impl::new(App { id: 0, tag: 0 });
    let a: u32 = kani::any();
    assert!(unsafe { un(&app, &a) } == a, "unsafe fn stays unsafe (its body dereferences a raw pointer)");
    assert!(unsafe { app.un(&a) } == a);
    assert!(unsafe { rt::block_on(app.un2(&a)) } == a);
    kani::cover!(true);
}
'''
    p2 = Program('c02_002', 'a directly entraited `unsafe fn` stays unsafe', src2, [h2], ['C02', 'C03'], tag='single-unsafe-fn')
    return [p1, p2]
