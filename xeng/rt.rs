// Runtime helpers shared by every generated program (Engine X). Generated crate
// includes this file as `crate::rt`. No dependency on entrait here.
#![allow(dead_code, static_mut_refs)]

pub const MAX_EV: usize = 4;
pub const MAX_ARGS: usize = 6;

#[derive(Clone, Copy)]
pub struct Ev {
    pub fn_id: u32,
    pub target: u32,
    pub deps: usize,
    pub nargs: usize,
    pub args: [u64; MAX_ARGS],
}

pub const EV0: Ev = Ev {
    fn_id: 0,
    target: 0,
    deps: 0,
    nargs: 0,
    args: [0; MAX_ARGS],
};

pub struct Log {
    pub count: usize,
    pub ev: [Ev; MAX_EV],
}

pub static mut LOG: Log = Log {
    count: 0,
    ev: [EV0; MAX_EV],
};

pub static mut MARKS: [u32; 8] = [0; 8];

#[inline(never)]
pub fn trace(fn_id: u32, target: u32, deps: usize, nargs: usize, args: [u64; MAX_ARGS]) {
    unsafe {
        if LOG.count < MAX_EV {
            LOG.ev[LOG.count] = Ev {
                fn_id,
                target,
                deps,
                nargs,
                args,
            };
        }
        LOG.count += 1;
    }
}

pub fn reset() {
    unsafe {
        LOG.count = 0;
        LOG.ev = [EV0; MAX_EV];
        MARKS = [0; 8];
    }
}

pub fn count() -> usize {
    unsafe { LOG.count }
}

pub fn ev(i: usize) -> Ev {
    unsafe { LOG.ev[i] }
}

pub fn mark(k: usize) {
    unsafe {
        MARKS[k] += 1;
    }
}

pub fn marks(k: usize) -> u32 {
    unsafe { MARKS[k] }
}

pub fn addr<T: ?Sized>(r: &T) -> usize {
    r as *const T as *const u8 as usize
}

/// order-sensitive mixing (cheap for a SAT back end: rotate + xor)
#[inline(always)]
pub fn mix(acc: u64, x: u64) -> u64 {
    acc.rotate_left(7) ^ x ^ 0x9e37
}

// ---- a minimal executor -------------------------------------------------
use core::future::Future;
use core::pin::Pin;
use core::task::{Context, Poll, RawWaker, RawWakerVTable, Waker};

const VTABLE: RawWakerVTable = RawWakerVTable::new(|p| RawWaker::new(p, &VTABLE), |_| {}, |_| {}, |_| {});

pub fn block_on<F: Future>(mut fut: F) -> F::Output {
    let waker = unsafe { Waker::from_raw(RawWaker::new(core::ptr::null(), &VTABLE)) };
    let mut cx = Context::from_waker(&waker);
    // SAFETY: `fut` is never moved after this point.
    let mut fut = unsafe { Pin::new_unchecked(&mut fut) };
    let mut polls = 0u32;
    loop {
        match fut.as_mut().poll(&mut cx) {
            Poll::Ready(v) => return v,
            Poll::Pending => {
                polls += 1;
                assert!(polls < 2, "future did not complete");
            }
        }
    }
}

/// A future that is pending exactly once (so that awaiting really suspends).
pub struct YieldOnce(pub bool);
impl Future for YieldOnce {
    type Output = ();
    fn poll(mut self: Pin<&mut Self>, _: &mut Context<'_>) -> Poll<()> {
        if self.0 {
            Poll::Ready(())
        } else {
            self.0 = true;
            Poll::Pending
        }
    }
}

// ---- shared parameter types ----------------------------------------------
/// move-only newtype
pub struct Tok(pub u32);
#[derive(Clone, Copy)]
pub struct N(pub u32);
#[derive(Clone, Copy)]
pub struct N2(pub u32, pub u8);
#[derive(Clone, Copy)]
pub struct S {
    pub a: u32,
}

pub fn is_send<T: Send>(t: T) -> T {
    t
}
