//! `#[verif_marker::mark(k)]`: prepends `crate::rt::mark(k);` to the body of the fn it is applied to and is a compile
//! error on anything else. Placed below `#[entrait]` it makes "the attribute stayed on the function and was applied
//! exactly once" an arithmetic fact a harness can assert.
use proc_macro::{Delimiter, Group, TokenStream, TokenTree};

#[proc_macro_attribute]
pub fn mark(attr: TokenStream, item: TokenStream) -> TokenStream {
    let k = attr.to_string();
    let mut toks: Vec<TokenTree> = item.into_iter().collect();
    let has_fn = toks
        .iter()
        .any(|t| matches!(t, TokenTree::Ident(i) if i.to_string() == "fn"));
    let last = toks.pop();
    match (has_fn, last) {
        (true, Some(TokenTree::Group(g))) if g.delimiter() == Delimiter::Brace => {
            let mut body: TokenStream = format!("crate::rt::mark({});", k).parse().unwrap();
            body.extend(g.stream());
            let mut ng = Group::new(Delimiter::Brace, body);
            ng.set_span(g.span());
            toks.push(TokenTree::Group(ng));
            toks.into_iter().collect()
        }
        _ => "compile_error!(\"verif_marker::mark applies to a fn with a body only\");"
            .parse()
            .unwrap(),
    }
}
