"""Type layouts (field order, variant order) that MIR refers to by index:
 * crate-local types: read from /repo/entrait_macros/src (current working tree)
 * syn / proc-macro2 types: read from the syn source the lock file resolves to
 * a few std enums, fixed."""

import glob, os, re
from .parse import split_top, match_close

STD_ENUMS = {
    'Option': ['None', 'Some'],
    'Result': ['Ok', 'Err'],
    'ControlFlow': ['Continue', 'Break'],
    'Poll': ['Ready', 'Pending'],
    'Ordering': ['Less', 'Equal', 'Greater'],
    'Delimiter': ['Parenthesis', 'Brace', 'Bracket', 'None'],
    'Spacing': ['Alone', 'Joint'],
    'TokenTree': ['Group', 'Ident', 'Punct', 'Literal'],
    'Pair': ['Punctuated', 'End'],
}


def strip_comments(src):
    src = re.sub(r'//[^\n]*', '', src)
    src = re.sub(r'/\*.*?\*/', '', src, flags=re.S)
    return src


def parse_items(src):
    """-> (structs {name: [field names] | int (tuple arity)}, enums {name: [(variant, [field names]|arity|None)]})"""
    structs, enums = {}, {}
    src = strip_comments(src)
    src = re.sub(r'Token!\s*\[[^\]]*\]', 'Tok', src)
    for m in re.finditer(r'\b(struct|enum)\s+([A-Za-z_]\w*)', src):
        kind, name = m.group(1), m.group(2)
        i = m.end()
        # skip generics
        while i < len(src) and src[i].isspace():
            i += 1
        if i < len(src) and src[i] == '<':
            i = match_close(src, i) + 1
        # find body start: '{' or '(' or ';' (skipping where clauses roughly)
        j = i
        while j < len(src) and src[j] not in '{(;':
            j += 1
        if j >= len(src):
            continue
        if src[j] == ';':
            if kind == 'struct':
                structs.setdefault(name, [])
            continue
        k = match_close(src, j)
        body = src[j + 1:k]
        if kind == 'struct':
            if src[j] == '(':
                structs.setdefault(name, len([x for x in split_top(body) if x.strip()]))
            else:
                structs.setdefault(name, [field_name(f) for f in split_top(body) if field_name(f)])
        else:
            vs = []
            for v in split_top(body):
                v = strip_attrs(v).strip()
                if not v:
                    continue
                mm = re.match(r'^([A-Za-z_]\w*)\s*(.*)$', v, flags=re.S)
                vn, rest = mm.group(1), mm.group(2).strip()
                if rest.startswith('('):
                    vs.append((vn, len(split_top(rest[1:match_close(rest, 0)]))))
                elif rest.startswith('{'):
                    vs.append((vn, [field_name(f) for f in split_top(rest[1:match_close(rest, 0)]) if field_name(f)]))
                else:
                    vs.append((vn, None))
            enums.setdefault(name, vs)
    return structs, enums


def strip_attrs(s):
    s = s.strip()
    while s.startswith('#'):
        i = s.index('[')
        j = match_close(s, i)
        s = s[j + 1:].strip()
    return s


def field_name(f):
    f = strip_attrs(f)
    f = re.sub(r'^pub(\([^)]*\))?\s+', '', f.strip())
    m = re.match(r'^(r#)?([A-Za-z_]\w*)\s*:', f)
    return m.group(2) if m else None


class Layout:
    def __init__(self, repo='/repo'):
        self.structs = {}
        self.enums = {}
        self.local_structs = {}
        self.local_enums = {}
        # crate-local
        for fn in sorted(glob.glob(os.path.join(repo, 'entrait_macros', 'src', '**', '*.rs'), recursive=True)):
            s, e = parse_items(open(fn).read())
            for k, v in s.items():
                self.local_structs.setdefault(k, v)
            for k, v in e.items():
                self.local_enums.setdefault(k, v)
        # syn
        lock = open(os.path.join(repo, 'Cargo.lock')).read()
        vers = re.findall(r'name = "syn"\nversion = "(2\.[0-9.]+)"', lock)
        synver = vers[0] if vers else '2.0.119'
        cands = glob.glob(os.path.expanduser(f'~/.cargo/registry/src/*/syn-{synver}/src'))
        self.syn_src = cands[0] if cands else None
        self.syn_structs, self.syn_enums = {}, {}
        if self.syn_src:
            for fn in sorted(glob.glob(os.path.join(self.syn_src, '*.rs'))):
                s, e = parse_items(open(fn).read())
                for k, v in s.items():
                    self.syn_structs.setdefault(k, v)
                for k, v in e.items():
                    self.syn_enums.setdefault(k, v)

    def struct_fields(self, name):
        if name in self.local_structs:
            return self.local_structs[name]
        return self.syn_structs.get(name)

    def enum_variants(self, name):
        if name in self.local_enums:
            return [v for v, _ in self.local_enums[name]]
        if name in STD_ENUMS:
            return STD_ENUMS[name]
        if name in self.syn_enums:
            return [v for v, _ in self.syn_enums[name]]
        return None

    def variant_index(self, enum, variant):
        vs = self.enum_variants(enum)
        if vs is None:
            raise KeyError(f'unknown enum {enum}')
        return vs.index(variant)

    def is_enum(self, name):
        return self.enum_variants(name) is not None
