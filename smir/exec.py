"""Symbolic executor for the MIR of entrait_macros.

One `Exec` object executes ONE path from an entry point: every choice point (lazy
initialisation of a symbolic input node, a branch on a solver term) consults the
replay prefix first and otherwise takes the first feasible alternative, recording how
many alternatives there were.  `explore()` re-executes with successive prefixes (DFS),
so no state is ever copied."""

import re, sys, time
import z3
from .values import *
from .parse import Place, Op, Rv
from . import resolve
from .resolve import parse_callee, basename

sys.setrecursionlimit(20000)

INT_RE = re.compile(r'^(-?\d+)_(?:u|i)(?:8|16|32|64|128|size)$')


def decode_rust_str(lit):
    """lit includes the quotes"""
    s = lit[1:-1]
    out = []
    i = 0
    n = len(s)
    while i < n:
        c = s[i]
        if c != '\\':
            out.append(c)
            i += 1
            continue
        d = s[i + 1]
        if d == 'n':
            out.append('\n'); i += 2
        elif d == 't':
            out.append('\t'); i += 2
        elif d == 'r':
            out.append('\r'); i += 2
        elif d == '0':
            out.append('\0'); i += 2
        elif d == 'x':
            out.append(chr(int(s[i + 2:i + 4], 16))); i += 4
        elif d == 'u':
            j = s.index('}', i)
            out.append(chr(int(s[i + 3:j], 16))); i = j + 1
        elif d == '\n':
            i += 2
            while i < n and s[i].isspace():
                i += 1
        else:
            out.append(d); i += 2
    return ''.join(out)


class Frame:
    __slots__ = ('body', 'locals')

    def __init__(self, body):
        self.body = body
        self.locals = [None] * (max(list(body.local_types.keys()) + [body.nargs]) + 1)


class Exec:
    def __init__(self, prog, prefix=()):
        self.prog = prog                  # Program: bodies, ix, layout, models
        self.prefix = list(prefix)
        self.taken = []                   # [(n_alternatives, chosen, label)]
        self.decisions = {}               # Sym key -> chosen alternative
        self.pc = []                      # z3 constraints
        self.solver = z3.Solver()
        self.solver.set('timeout', prog.solver_timeout_ms)
        self.queries = 0
        self.solver_time = 0.0
        self.steps = 0
        self.bodies_run = set()
        self.models_used = set()
        self.trace_calls = False
        self.depth = 0
        self.notes = {}                   # free-form facts recorded by models (e.g. impure primitive reached)
        self.fresh = 0

    # ---- choice points ---------------------------------------------------
    def decide(self, n, label):
        i = len(self.taken)
        c = self.prefix[i] if i < len(self.prefix) else 0
        if c >= n:
            raise Infeasible(f'replay prefix out of range at {label}')
        self.taken.append((n, c, label))
        return c

    def check(self, *extra):
        t = time.time()
        self.solver.push()
        for e in extra:
            self.solver.add(e)
        r = self.solver.check()
        self.solver.pop()
        self.queries += 1
        self.solver_time += time.time() - t
        if r == z3.unknown:
            raise Unsupported('solver returned unknown (timeout) on a path-condition query')
        return r == z3.sat

    def assume(self, c):
        self.pc.append(c)
        self.solver.add(c)

    def branch(self, cond, label='branch'):
        """cond: python bool or z3 Bool. Returns a python bool; forks when both outcomes are feasible."""
        if isinstance(cond, bool):
            return cond
        if isinstance(cond, int):
            return cond != 0
        cond = z3.simplify(cond)
        if z3.is_true(cond):
            return True
        if z3.is_false(cond):
            return False
        t = self.check(cond)
        f = self.check(z3.Not(cond))
        if t and f:
            c = self.decide(2, label)
            val = (c == 0)
        elif t:
            val = True
        elif f:
            val = False
        else:
            raise Infeasible(label)
        self.assume(cond if val else z3.Not(cond))
        return val

    def force_slot(self, cont, idx):
        """resolve a lazily-initialised symbolic node in place"""
        v = cont[idx]
        while isinstance(v, Sym):
            if v.key in self.decisions:
                i = self.decisions[v.key]
            elif self.fixed_for(v) is not None:
                i = self.fixed_for(v)
                self.decisions[v.key] = i
            else:
                allowed = self.restricted_for(v)
                if allowed is not None:
                    # a slice split along this dimension: this worker owns one residue class of its alternatives
                    if not allowed:
                        raise Infeasible(f'no alternative of {v.key} in this part of the split')
                    i = allowed[self.decide(len(allowed), v.key) if len(allowed) > 1 else 0]
                else:
                    i = self.decide(v.n, v.key) if v.n > 1 else 0
                self.decisions[v.key] = i
            v = v.gen(self, i)
            cont[idx] = v
        return v

    def restricted_for(self, v):
        for rx, k, n in getattr(self.prog, 'restrict', ()) or ():
            if rx.search(v.key):
                return [i for i in range(v.n) if i % n == k]
        return None

    def fixed_for(self, v):
        """drivers concretise dimensions their property does not depend on: [(compiled regex, label or index)]"""
        for rx, what in self.prog.fixed:
            if rx.search(v.key):
                if isinstance(what, int):
                    return what if what < v.n else None
                if v.labels and what in v.labels:
                    return v.labels.index(what)
        return None

    def force(self, v):
        if isinstance(v, Sym):
            tmp = [v]
            return self.force_slot(tmp, 0)
        return v

    def fresh_name(self, base):
        self.fresh += 1
        return f'{base}!{self.fresh}'

    # ---- places ------------------------------------------------------------
    def slot(self, fr, place):
        cont, idx = fr.locals, place.local
        for pr in place.proj:
            k = pr[0]
            v = cont[idx]
            if isinstance(v, Sym):
                v = self.force_slot(cont, idx)
            if k == 'deref':
                if isinstance(v, Ptr):
                    cont, idx = v.cont, v.idx
                elif isinstance(v, Obj) and v.ty == 'Box':
                    cont, idx = v.fields, 0
                else:
                    raise Unsupported(f'deref of {type(v).__name__} {v!r:.80}')
            elif k == 'field':
                if isinstance(v, Obj) and v.ty == 'Box':
                    # Box<T>.0 (Unique<T>) .0 (NonNull<T>): a raw pointer to the contents
                    cont, idx = [Ptr(v.fields, 0)], 0
                elif isinstance(v, Obj):
                    cont, idx = v.fields, pr[1]
                    if idx >= len(cont):
                        raise Unsupported(f'field {idx} of {v.ty}::{v.variant} with {len(cont)} fields')
                elif isinstance(v, Ptr) and pr[1] == 0:
                    # e.g. Box<T>.0 / Unique / NonNull wrappers around a pointer: stay
                    pass
                else:
                    raise Unsupported(f'field projection .{pr[1]} on {type(v).__name__} {v!r:.80}')
            elif k == 'downcast':
                if not isinstance(v, Obj):
                    raise Unsupported(f'downcast on {type(v).__name__}')
                # MIR only downcasts after testing the discriminant
                if v.variant != pr[1]:
                    raise Unsupported(f'downcast {v.ty}::{v.variant} as {pr[1]}')
            elif k == 'index':
                iv = fr.locals[pr[1]]
                if isinstance(v, (VecObj, Punct)):
                    cont, idx = v.items, iv
                else:
                    raise Unsupported('index on ' + type(v).__name__)
            elif k == 'cindex':
                if isinstance(v, (VecObj, Punct)):
                    cont, idx = v.items, (len(v.items) - pr[1] if pr[2] else pr[1])
                else:
                    raise Unsupported('cindex on ' + type(v).__name__)
        return cont, idx

    def read_place(self, fr, place):
        cont, idx = self.slot(fr, place)
        return cont[idx]

    def write_place(self, fr, place, val):
        cont, idx = self.slot(fr, place)
        cont[idx] = val

    # ---- operands ----------------------------------------------------------
    def const(self, txt):
        if txt.startswith('"'):
            return decode_rust_str(txt)
        if txt in ('true', 'false'):
            return txt == 'true'
        m = INT_RE.match(txt)
        if m:
            return int(m.group(1))
        if txt == '()':
            return UNIT
        if txt.startswith('b"'):
            return ('bytes', txt[1:])
        if txt.startswith("'"):
            return decode_rust_str('"' + txt[1:-1] + '"')
        if txt.startswith('{alloc') or txt.startswith('&raw') or 'static' in txt.split(':')[0]:
            # the address of a `static`: state that outlives one invocation
            self.notes.setdefault('impure', []).append('reads/writes a static: ' + txt[:120])
            return Obj('Static', None, [txt])
        if txt.startswith('ZeroSized: '):
            ty = txt[len('ZeroSized: '):].strip()
            if ty.startswith('{closure@'):
                return Obj('closure', ty, [], [])
            return FnItem(ty)
        if txt.startswith('fnitem '):
            return FnItem(txt[7:])
        if 'promoted[' in txt or '{constant#' in txt:
            b = self.prog.bodies.get(txt)
            if b is None:
                # names may be module-qualified differently; match by suffix
                for k in self.prog.bodies:
                    if k.endswith(txt) or txt.endswith(k):
                        b = self.prog.bodies[k]
                        break
            if b is None:
                # `Type::<'_>::method::promoted[0]` vs `<impl at file:l:c>::method::promoted[0]`
                m = re.search(r'([A-Za-z_]\w*)::(promoted\[\d+\]|\{constant#\d+\})$', txt)
                if m:
                    suffix = '::' + m.group(1) + '::' + m.group(2)
                    cands = [k for k in self.prog.bodies if k.endswith(suffix)]
                    if len(cands) == 1:
                        b = self.prog.bodies[cands[0]]
            if b is None:
                raise Unsupported('constant body ' + txt)
            return self.run_body(b, [])
        if re.match(r'^-?\d+(\.\d+)?$', txt):
            return int(txt)
        # constant unit variants, e.g. `Option::<Infallible>::None`
        flat = resolve.strip_generics(txt)
        segs = [x for x in flat.split('::') if x]
        if len(segs) >= 2 and self.prog.layout.is_enum(segs[-2]) and segs[-1] in self.prog.layout.enum_variants(segs[-2]):
            return Obj(segs[-2], segs[-1], [])
        # zero-sized constants: unit structs of this crate are values, the rest are fn items / markers
        base = basename(txt)
        # a named constant item of the crate (`const NAME: T = ..;` - the dump prints its initialiser as a body)
        cb = self.prog.bodies.get(base)
        if cb is not None and cb.header.startswith('const ') and re.match(r'^[\w:<>\' ,]+$', txt):
            return self.run_body(cb, [])
        if self.prog.layout.local_structs.get(base) == []:
            return Obj(base, None, [], [])
        return FnItem(txt)

    def operand(self, fr, op):
        if op.kind == 'const':
            return self.const(op.const)
        v = self.read_place(fr, op.place)
        if op.kind == 'copy' and isinstance(v, (Obj, VecObj, Punct)):
            if isinstance(v, Obj) and v.ty == 'Box':
                return v  # bitwise copy of the owning pointer (MIR's `*box` lowering): same allocation
            return clone_val(v)
        return v

    # ---- rvalues -----------------------------------------------------------
    def adt(self, path, fields, shape):
        L = self.prog.layout
        flat = resolve.strip_generics(path)
        segs = [s for s in flat.split('::') if s and not s.startswith("'")]
        name = segs[-1]
        if len(segs) >= 2 and L.is_enum(segs[-2]) and name in L.enum_variants(segs[-2]):
            ty, variant = segs[-2], name
            names = None
            if shape == 'named':
                names = [n for n, _ in fields]
            return Obj(ty, variant, [v for _, v in fields], names)
        dest = getattr(self, '_dest_ty', None)
        if len(segs) == 1 and dest and L.local_structs.get(name) is None:
            en = basename(resolve.strip_generics(dest))
            if L.is_enum(en) and name in L.enum_variants(en):
                return Obj(en, name, [v for _, v in fields], [n for n, _ in fields] if shape == 'named' else None)
        ty = name
        if shape == 'named':
            decl = L.struct_fields(ty)
            d = dict(fields)
            if isinstance(decl, list) and decl and set(decl) == set(d):
                return Obj(ty, None, [d[n] for n in decl], list(decl))
            return Obj(ty, None, [v for _, v in fields], [n for n, _ in fields])
        return Obj(ty, None, [v for _, v in fields], None)

    def rvalue(self, fr, rv):
        k = rv.kind
        if k == 'use':
            return self.operand(fr, rv.a)
        if k == 'ref':
            cont, idx = self.slot(fr, rv.a)
            return Ptr(cont, idx)
        if k == 'discr':
            cont, idx = self.slot(fr, rv.a)
            v = self.force_slot(cont, idx)
            return self.discriminant(v)
        if k == 'adt':
            return self.adt(rv.a, [(n, self.operand(fr, o)) for n, o in rv.b], rv.c)
        if k == 'tuple':
            return Obj('tuple', None, [self.operand(fr, o) for o in rv.a])
        if k == 'array':
            return VecObj([self.operand(fr, o) for o in rv.a], 'array')
        if k == 'repeat':
            v = self.operand(fr, rv.a)
            n = int(re.match(r'^\s*(?:const )?(\d+)', rv.b).group(1))
            return VecObj([clone_val(v) for _ in range(n)], 'array')
        if k == 'closure':
            return Obj('closure', rv.a, [self.operand(fr, o) for _, o in rv.b], [n for n, _ in rv.b])
        if k == 'cast':
            return self.operand(fr, rv.a)
        if k == 'fnptr':
            return FnItem(rv.a)
        if k == 'binop':
            return self.binop(rv.a, self.operand(fr, rv.b), self.operand(fr, rv.c))
        if k == 'unop':
            v = self.operand(fr, rv.b)
            if rv.a == 'Not':
                if isinstance(v, bool):
                    return not v
                if isinstance(v, z3.ExprRef):
                    return z3.Not(v)
                return ~v
            if rv.a == 'Neg':
                return -v
            if rv.a == 'PtrMetadata':
                t = v.get() if isinstance(v, Ptr) else v
                return len(t.items)
            raise Unsupported('unop ' + rv.a)
        if k == 'len':
            v = self.read_place(fr, rv.a)
            return len(v.items)
        raise Unsupported('rvalue ' + k)

    def discriminant(self, v):
        if isinstance(v, Obj):
            if v.variant is None:
                raise Unsupported(f'discriminant of non-enum {v.ty}')
            return self.prog.layout.variant_index(v.ty, v.variant)
        if isinstance(v, bool):
            return int(v)
        raise Unsupported(f'discriminant of {type(v).__name__} {v!r:.60}')

    def binop(self, op, a, b):
        sym = isinstance(a, z3.ExprRef) or isinstance(b, z3.ExprRef)
        if op == 'Eq':
            return (a == b)
        if op == 'Ne':
            return (a != b)
        if op == 'Lt':
            return a < b
        if op == 'Le':
            return a <= b
        if op == 'Gt':
            return a > b
        if op == 'Ge':
            return a >= b
        if op in ('Add', 'AddUnchecked'):
            return a + b
        if op in ('Sub', 'SubUnchecked'):
            return a - b
        if op == 'Mul':
            return a * b
        if op == 'AddWithOverflow':
            return Obj('tuple', None, [a + b, False])
        if op == 'SubWithOverflow':
            r = a - b
            return Obj('tuple', None, [r, (r < 0) if not sym else False])
        if op == 'MulWithOverflow':
            return Obj('tuple', None, [a * b, False])
        if op == 'BitAnd':
            return (a and b) if isinstance(a, bool) else (a & b)
        if op == 'BitOr':
            return (a or b) if isinstance(a, bool) else (a | b)
        raise Unsupported('binop ' + op)

    # ---- running bodies ------------------------------------------------------
    def run_body(self, body, args):
        fr = Frame(body)
        if len(args) != body.nargs:
            raise Unsupported(f'arity mismatch calling {body.name}: {len(args)} vs {body.nargs}')
        for i, a in enumerate(args):
            fr.locals[i + 1] = a
        self.bodies_run.add(body.name)
        self.depth += 1
        if self.depth > 400:
            raise Unsupported('call depth bound exceeded (recursion cut)')
        bid = 0
        blocks = body.blocks
        try:
            while True:
                stmts, term = blocks[bid]
                for st in stmts:
                    self.steps += 1
                    if st[0] == 'assign':
                        # the pretty printer names an enum aggregate by its variant only (`_5 = Public(move _6)`): the enum is the
                        # declared type of the destination local
                        self._dest_ty = body.local_types.get(st[1].local) if (st[2].kind == 'adt' and not st[1].proj) else None
                        v = self.rvalue(fr, st[2])
                        p = st[1]
                        if not p.proj:
                            fr.locals[p.local] = v
                        else:
                            cont, idx = self.slot(fr, p)
                            cont[idx] = v
                    elif st[0] == 'setdiscr':
                        raise Unsupported('SetDiscriminant')
                self.steps += 1
                t = term[0]
                if t == 'goto':
                    bid = term[1]
                elif t == 'call':
                    _, dest, callee, argops, targets = term
                    argv = [self.operand(fr, o) for o in argops]
                    r = self.call(callee, argv, fr)
                    if 'return' not in targets:
                        raise Unsupported(f'diverging call {callee} returned')
                    if dest is not None:
                        if not dest.proj:
                            fr.locals[dest.local] = r
                        else:
                            cont, idx = self.slot(fr, dest)
                            cont[idx] = r
                    bid = targets['return']
                elif t == 'switch':
                    v = self.operand(fr, term[1])
                    bid = self.switch(v, term[2], body.name)
                elif t == 'drop':
                    cont, idx = self.slot(fr, term[1])
                    self.drop(cont[idx], cont, idx)
                    bid = term[2]['return']
                elif t == 'return':
                    return fr.locals[0] if fr.locals[0] is not None else UNIT
                elif t == 'assert':
                    c = self.operand(fr, term[1])
                    ok = self.branch(c if term[2] else (not c if isinstance(c, bool) else z3.Not(c)), 'assert')
                    if not ok:
                        raise PanicExc(f'{body.name}: assert', term[3])
                    bid = term[4]['success']
                elif t == 'unreachable':
                    raise Unsupported(f'reached `unreachable` in {body.name} bb{bid}')
                elif t == 'resume':
                    raise Unsupported('resume on a normal path')
                else:
                    raise Unsupported('terminator ' + t)
        except (Unsupported, PanicExc) as e:
            if not hasattr(e, 'where'):
                e.where = []
            if len(e.where) < 12:
                e.where.append(f'{body.name.split("::")[-1] if "closure" not in body.name else body.name[-40:]}:bb{bid}')
            raise
        finally:
            self.depth -= 1

    def switch(self, v, targets, where):
        if isinstance(v, bool):
            v = int(v)
        if isinstance(v, int):
            if v in targets:
                return targets[v]
            return targets['otherwise']
        if isinstance(v, str) and len(v) == 1:
            c = ord(v)
            return targets.get(c, targets.get('otherwise'))
        if isinstance(v, z3.ExprRef):
            if z3.is_bool(v):
                b = self.branch(v, f'switch@{where}')
                iv = 1 if b else 0
                return targets[iv] if iv in targets else targets['otherwise']
            # integer term: try each explicit target then otherwise
            keys = [k for k in targets if k != 'otherwise']
            feas = []
            for kk in keys:
                if self.check(v == kk):
                    feas.append(kk)
            if 'otherwise' in targets and self.check(z3.And([v != kk for kk in keys])):
                feas.append('otherwise')
            if not feas:
                raise Infeasible('switch')
            c = self.decide(len(feas), f'switchInt@{where}') if len(feas) > 1 else 0
            ch = feas[c]
            if ch == 'otherwise':
                self.assume(z3.And([v != kk for kk in keys]))
            else:
                self.assume(v == ch)
            return targets[ch]
        raise Unsupported(f'switchInt on {type(v).__name__} {v!r:.60}')

    def drop(self, v, cont, idx):
        if isinstance(v, Obj):
            name = self.prog.ix.methods.get((v.ty, 'Drop', 'drop'))
            if name:
                self.run_body(self.prog.bodies[name], [Ptr(cont, idx)])

    # ---- calls ----------------------------------------------------------------
    def rt_type(self, v):
        """runtime type name used for trait-method dispatch"""
        while isinstance(v, Ptr):
            v = v.get()
        if isinstance(v, Sym):
            return None
        if isinstance(v, Obj):
            return v.ty
        return type(v).__name__

    def call(self, callee, args, fr=None):
        prog = self.prog
        if callee.startswith(('move ', 'copy ')):
            f = self.operand(fr, __import__('smir.parse', fromlist=['parse_operand']).parse_operand(callee))
            return self.call_value(f, args)
        c = parse_callee(callee)
        ix = prog.ix
        if c.self_ty is not None:
            tb = basename(c.trait) if c.trait else None
            if tb in ('FnOnce', 'FnMut', 'Fn'):
                f = args[0]
                tup = args[1]
                return self.call_value(f, list(tup.fields))
            # dispatch on the runtime type of the receiver (works for generic parameters without monomorphisation)
            st = basename(c.self_ty)
            rt = self.rt_type(args[0]) if args else None
            for t in ([rt] if rt else []) + [st]:
                name = ix.methods.get((t, tb, c.method))
                if name:
                    body = prog.bodies[name]
                    if args and tb is not None:
                        args = [self.normalize_self(body, args[0])] + list(args[1:])
                    return self.run_body(body, args)
            if tb is None:
                name = ix.methods.get((st, None, c.method))
                if name:
                    return self.run_body(prog.bodies[name], args)
            return prog.models.call(self, c, args)
        # unqualified path
        if c.segs:
            name = ix.methods.get((c.segs[-1], None, c.method))
            if name:
                return self.run_body(prog.bodies[name], args)
            # module-qualified free fn of this crate
            full = '::'.join(c.segs + [c.method])
            if full in prog.bodies:
                return self.run_body(prog.bodies[full], args)
            if c.segs[-1][0].islower() and c.method in ix.free and not prog.models.has(c):
                return self.run_body(prog.bodies[ix.free[c.method]], args)
        else:
            if c.method in ix.free:
                return self.run_body(prog.bodies[ix.free[c.method]], args)
        return prog.models.call(self, c, args)

    def normalize_self(self, body, a):
        """blanket impls for &T / &mut T / Box<T> forward to T's impl: give the body exactly the indirection it declares"""
        want = 0
        t = body.arg_types[0].strip() if body.arg_types else ''
        while t.startswith('&'):
            want += 1
            t = t[1:].lstrip()
            if t.startswith("'"):
                t = t.split(' ', 1)[1] if ' ' in t else t
            if t.startswith('mut '):
                t = t[4:].lstrip()
        last_ptr = None
        v = a
        while isinstance(v, Ptr):
            last_ptr = v
            v = v.get()
        if want == 0:
            return v
        if want == 1:
            return last_ptr if last_ptr is not None else new_cell(v)
        return a

    def call_value(self, f, args):
        """call a closure object / fn item with already-evaluated args"""
        while isinstance(f, Ptr):
            inner = f.get()
            if isinstance(inner, Obj) and inner.ty == 'closure':
                # call through a reference: body expects &/&mut closure or closure by value
                break
            f = inner
        if isinstance(f, Ptr):
            clo = f.get()
            name = self.prog.ix.closures.get(clo.variant)
            if name is None:
                raise Unsupported('closure body for ' + str(clo.variant))
            body = self.prog.bodies[name]
            first = f if body.arg_types[0].startswith('&') else clo
            return self.run_body(body, [first] + list(args))
        if isinstance(f, Obj) and f.ty == 'closure':
            name = self.prog.ix.closures.get(f.variant)
            if name is None:
                raise Unsupported('closure body for ' + str(f.variant))
            body = self.prog.bodies[name]
            first = new_cell(f) if body.arg_types[0].startswith('&') else f
            return self.run_body(body, [first] + list(args))
        if isinstance(f, FnItem):
            return self.call(f.path, list(args))
        raise Unsupported(f'call of {type(f).__name__}')


class Program:
    """parsed MIR + indices shared by all paths"""

    def __init__(self, bodies, layout, models, repo='/repo', solver_timeout_ms=10000):
        self.bodies = bodies
        self.layout = layout
        self.ix = resolve.ImplIndex(bodies, repo)
        self.models = models
        self.solver_timeout_ms = solver_timeout_ms
        self.fixed = []


class PathResult:
    __slots__ = ('kind', 'value', 'taken', 'decisions', 'pc', 'error', 'steps', 'queries', 'solver_time', 'bodies', 'models', 'notes', 'ex')


def run_path(prog, entry, prefix, setup):
    """setup(ex) -> (body_name | callable, args).  Returns PathResult. kinds: ok | panic | unsupported | infeasible"""
    ex = Exec(prog, prefix)
    pr = PathResult()
    pr.ex = ex
    try:
        target, args = setup(ex)
        if callable(target):
            pr.value = target(ex, *args)
        else:
            pr.value = ex.run_body(prog.bodies[target], args)
        pr.kind = 'ok'
        pr.error = None
    except PanicExc as e:
        pr.kind, pr.value, pr.error = 'panic', None, e
    except Unsupported as e:
        pr.kind, pr.value, pr.error = 'unsupported', None, e
    except Infeasible as e:
        pr.kind, pr.value, pr.error = 'infeasible', None, e
    except (AttributeError, KeyError, TypeError, IndexError, AssertionError, ValueError) as e:
        # a shape the executor / a model does not handle: never a verdict
        import traceback
        tb = traceback.extract_tb(e.__traceback__)[-1]
        pr.kind, pr.value, pr.error = 'unsupported', None, Unsupported(f'executor error {type(e).__name__}: {e} at {tb.filename.split("/")[-1]}:{tb.lineno}')
    pr.taken = ex.taken
    pr.decisions = ex.decisions
    pr.pc = ex.pc
    pr.steps = ex.steps
    pr.queries = ex.queries
    pr.solver_time = ex.solver_time
    pr.bodies = ex.bodies_run
    pr.models = ex.models_used
    pr.notes = ex.notes
    return pr


def next_prefix(taken):
    """DFS successor of a completed path's choice record, or None when exhausted"""
    j = len(taken) - 1
    while j >= 0:
        n, c, _ = taken[j]
        if c + 1 < n:
            return [t[1] for t in taken[:j]] + [c + 1]
        j -= 1
    return None


def explore(prog, entry, setup, max_paths=100000, on_path=None, time_budget=None):
    """enumerate all paths; yields PathResult objects"""
    prefix = []
    n = 0
    t0 = time.time()
    while prefix is not None and n < max_paths:
        pr = run_path(prog, entry, prefix, setup)
        n += 1
        yield pr
        prefix = next_prefix(pr.taken)
        if time_budget and time.time() - t0 > time_budget:
            break
    if prefix is not None:
        # exploration truncated
        pr = PathResult()
        pr.kind = 'truncated'
        pr.value = None
        pr.taken = []
        pr.error = f'exploration stopped after {n} paths'
        pr.decisions, pr.pc, pr.steps, pr.queries, pr.solver_time, pr.bodies, pr.models, pr.notes, pr.ex = {}, [], 0, 0, 0, set(), set(), {}, None
        yield pr
