"""Callee resolution: which MIR body (if any) a call refers to."""
import os, re
from .parse import split_top, match_close


def strip_generics(s):
    """remove every <...> group (keeps `<X as Y>` qualified-self prefix intact: caller handles that first)"""
    out = []
    depth = 0
    i = 0
    n = len(s)
    while i < n:
        c = s[i]
        if c == '<':
            depth += 1
        elif c == '>' and not (i > 0 and s[i - 1] in '-='):
            depth -= 1
        elif depth == 0:
            out.append(c)
        i += 1
    return ''.join(out)


def basename(ty):
    """`syn::punctuated::Punctuated<FnArg, Comma>` -> Punctuated ; `&mut Vec<T>` -> Vec ; `[T]` -> slice ; `(A,B)` -> tuple"""
    ty = ty.strip()
    while True:
        if ty.startswith('&'):
            ty = ty[1:].strip()
            if ty.startswith("'"):
                ty = ty.split(' ', 1)[1] if ' ' in ty else ty
            if ty.startswith('mut '):
                ty = ty[4:].strip()
            continue
        if ty.startswith('dyn '):
            ty = ty[4:]
            continue
        break
    if ty.startswith('['):
        return 'slice'
    if ty.startswith('('):
        return 'tuple'
    if ty.startswith('{closure@'):
        return ty
    ty = strip_generics(ty)
    ty = ty.replace("::'_", '').replace("'_", '')
    return ty.split('::')[-1].strip()


class Callee:
    __slots__ = ('text', 'self_ty', 'trait', 'segs', 'method', 'generics')

    def __repr__(self):
        return f'Callee({self.self_ty} as {self.trait} :: {self.segs} :: {self.method})'


_cache = {}


def parse_callee(text):
    c = _cache.get(text)
    if c is not None:
        return c
    c = Callee()
    c.text = text
    c.self_ty = None
    c.trait = None
    c.generics = ''
    t = text.strip()
    # inherent impls of primitive types print as `core::slice::<impl [T]>::iter`
    def _impl(m):
        inner = m.group(1).strip()
        if inner.startswith('['):
            return '::slice'
        return '::' + re.sub(r'<.*>', '', inner).split('::')[-1].strip()
    t = re.sub(r'::<impl ([^<>]*(?:<[^<>]*>)?[^<>]*)>', _impl, t)
    if t.startswith('<'):
        j = match_close(t, 0)
        inner = t[1:j]
        rest = t[j + 1:]
        # inner: `X as Trait` (split at top-level ' as ')
        parts = split_as(inner)
        c.self_ty = parts[0].strip()
        c.trait = parts[1].strip() if len(parts) > 1 else None
        rest = rest.lstrip(':')
        # rest: method::<generics>
        m = re.match(r'^([A-Za-z_]\w*)(::<.*>)?$', rest, flags=re.S)
        if m:
            c.method = m.group(1)
            c.generics = m.group(2) or ''
        else:
            c.method = strip_generics(rest).split('::')[-1]
        c.segs = []
    else:
        # last turbofish belongs to the method
        m = re.match(r'^(.*?)(::<[^<>]*(?:<.*>)?[^<>]*>)?$', t, flags=re.S)
        flat = strip_generics(t)
        segs = [s for s in flat.split('::') if s and s != "'_"]
        c.method = segs[-1]
        c.segs = segs[:-1]
        if t.endswith('>'):
            # the turbofish of the last path segment: a top-level `::<` whose bracket closes at the very end
            depth = 0
            i = 0
            n = len(t)
            while i < n:
                ch = t[i]
                if depth == 0 and t.startswith('::<', i):
                    try:
                        if match_close(t, i + 2) == n - 1:
                            c.generics = t[i:]
                            break
                    except ValueError:
                        pass
                if ch in '<([{':
                    depth += 1
                elif ch in ')]}':
                    depth -= 1
                elif ch == '>' and not (i > 0 and t[i - 1] in '-='):
                    depth -= 1
                i += 1
    _cache[text] = c
    return c


def split_as(s):
    depth = 0
    i = 0
    n = len(s)
    while i < n:
        ch = s[i]
        if ch in '<([{':
            depth += 1
        elif ch in ')]}':
            depth -= 1
        elif ch == '>' and not (i > 0 and s[i - 1] in '-='):
            depth -= 1
        elif depth == 0 and s.startswith(' as ', i):
            return [s[:i], s[i + 4:]]
        i += 1
    return [s]


class ImplIndex:
    """maps (self type basename, trait basename | None, method) -> body name, using the impl headers read
    from the source lines that `<impl at file:line:col>` points to"""

    def __init__(self, bodies, repo='/repo'):
        self.bodies = bodies
        self.methods = {}       # (self_base, trait_base or None, method) -> body name
        self.free = {}          # fn base name -> body name
        self.closures = {}      # closure key text -> body name
        self.impl_headers = {}
        src_root = os.path.join(repo, 'entrait_macros')
        file_cache = {}
        for name, b in bodies.items():
            m = re.search(r'<impl at (src/[^:]+):(\d+):(\d+): (\d+):(\d+)>::([A-Za-z_]\w*)$', name)
            if m:
                fn, line, col = m.group(1), int(m.group(2)), int(m.group(3))
                key = (fn, line, col)
                if key not in self.impl_headers:
                    if fn not in file_cache:
                        file_cache[fn] = open(os.path.join(src_root, fn)).read().split('\n')
                    lines = file_cache[fn]
                    txt = lines[line - 1][col - 1:]
                    k = line
                    while '{' not in txt and k < len(lines):
                        txt += ' ' + lines[k]
                        k += 1
                    self.impl_headers[key] = self.parse_header(txt.split('{')[0], lines, line)
                self_ty, trait = self.impl_headers[key]
                self.methods[(self_ty, trait, m.group(6))] = name
                continue
            if '{closure#' in name:
                first = b.arg_types[0] if b.arg_types else ''
                mm = re.search(r'\{closure@[^}]*\}', first)
                if mm:
                    self.closures[mm.group(0)] = name
                continue
            if 'promoted[' in name or '{constant#' in name:
                continue
            base = name.split('::')[-1]
            self.free.setdefault(base, name)
            self.free[name] = name

    @staticmethod
    def parse_header(h, lines, line):
        h = h.strip()
        if h.startswith('#[derive'):
            # `#[derive(Clone, Copy)]` on the next struct/enum: the impl span points at the derive item
            # find the type name on the following lines
            col_txt = h
            j = line
            name = None
            while j < len(lines):
                mm = re.search(r'\b(struct|enum)\s+([A-Za-z_]\w*)', lines[j])
                if mm:
                    name = mm.group(2)
                    break
                j += 1
            return (name, 'derive')
        mm = re.match(r'^(?:unsafe\s+)?impl\b', h)
        if not mm:
            # derive expansions: span is the trait name inside #[derive(...)], e.g. `Clone, Copy)]`
            tr = re.match(r'^([A-Za-z_]\w*)', h)
            j = line - 1
            name = None
            while j < len(lines):
                m2 = re.search(r'\b(struct|enum)\s+([A-Za-z_]\w*)', lines[j])
                if m2:
                    name = m2.group(2)
                    break
                j += 1
            return (name, tr.group(1) if tr else 'derive')
        rest = h[mm.end():].strip()
        if rest.startswith('<'):
            rest = rest[match_close(rest, 0) + 1:].strip()
        rest = re.split(r'\bwhere\b', rest)[0].strip()
        parts = re.split(r'\s+for\s+', rest)
        if len(parts) == 2:
            return (basename(parts[1]), basename(parts[0]))
        return (basename(parts[0]), None)
