"""Entry points: set up a symbolic input, run one of the macro's modes, hand each path to the caller."""
import re, time
from .values import *
from . import exec as sexec, inputs, setup as ssetup, synprint

VARIANT_CLOSURE = {
    'entrait': 'entrait::{closure#0}',
    'entrait_export': 'entrait_export::{closure#0}',
    'entrait_unimock': 'entrait_unimock::{closure#0}',
    'entrait_export_unimock': 'entrait_export_unimock::{closure#0}',
}


def apply_variant(ex, variant, opts_ptr):
    """the per-macro-name `opts_modifier` closure that `invoke` applies after parsing the attribute"""
    name = VARIANT_CLOSURE[variant]
    body = ex.prog.bodies[name]
    clo = Obj('closure', 'variant', [], [])
    ex.run_body(body, [clo, opts_ptr])


def set_fixed(prog, fixed):
    prog.fixed = [(re.compile(rx), what) for rx, what in fixed]


def normalised_attr(ex, attr0, variant):
    """C17: the canonical spelling of an invocation - macro `entrait`, the fallbacks of the macro variant written out as
    explicit options, then `no_deps = false` / `export = false` dropped (they are "identical to omitting them")."""
    from .spec import EXPORT_VARIANTS, UNIMOCK_VARIANTS
    attr2 = clone_val(attr0)
    opts = ex.force_slot(attr2.fields, attr2.names.index('opts'))
    if isinstance(opts, Obj) and opts is attr0.fields[attr0.names.index('opts')]:
        opts = clone_val(opts)
        attr2.fields[attr2.names.index('opts')] = opts

    def get(name):
        return ex.force_slot(opts.fields, opts.names.index(name))

    def put(name, v):
        opts.fields[opts.names.index(name)] = v

    def given_true(name):
        return Some(Obj('SpanOpt', None, [True, Span(('input', 'norm.' + name))]))
    if variant in EXPORT_VARIANTS and get('export').variant == 'None':
        put('export', given_true('export'))
    if variant in UNIMOCK_VARIANTS and get('unimock').variant == 'None':
        put('unimock', given_true('unimock'))
    for name in ('no_deps', 'export'):
        o = get(name)
        if o.variant == 'Some':
            v = o.fields[0].fields[0]
            b = v if isinstance(v, bool) else ex.branch(v, 'norm:' + name)
            put(name, given_true(name) if b else NONE())
    return attr2


def metamorphic(ex, prog, body, attr0, item0, variant, out, wrap_attr):
    """runs the same item again under the canonical spelling of its options and obliges both expansions to coincide"""
    from . import spec
    attr2 = normalised_attr(ex, attr0, variant)
    item2 = clone_val(item0)
    apply_variant(ex, 'entrait', Ptr(attr2.fields, attr2.names.index('opts')))
    out2 = ex.run_body(prog.bodies[body], [wrap_attr(attr2), item2])
    ex.notes['meta_out2'] = out2
    spec.spec_metamorphic(ex, ex.notes['obligations'], out, out2)


def fn_mode(prog, bounds, variant='entrait', opts_only=None, fixed=(), name='foo', trait_name='Foo', with_spec=True, meta=False):
    gen = inputs.Gen(prog, bounds)
    set_fixed(prog, fixed)

    def setup(ex):
        attr = gen.fn_attr('attr', opts_only, trait_name)
        item = gen.input_fn('fn', name)
        ex.notes['input'] = dict(mode='fn', variant=variant, gen=gen, opts_only=opts_only, name=name, trait_name=trait_name)

        def target(ex, attr, item):
            attr0, item0 = clone_val(attr), clone_val(item)   # pristine copies for the spec (lazy leaves shared by key)
            apply_variant(ex, variant, Ptr(attr.fields, attr.names.index('opts')))
            out = ex.run_body(prog.bodies['entrait_for_single_fn'], [new_cell(attr), item])
            if with_spec:
                from . import spec
                ex.notes['obligations'] = spec.spec_fn_mode(ex, variant, attr0, item0, out)
                if meta and ex.notes['obligations'] is not None:
                    metamorphic(ex, prog, 'entrait_for_single_fn', attr0, item0, variant, out, new_cell)
            return out
        return target, [attr, item]
    return setup


def mod_mode(prog, bounds, variant='entrait', opts_only=None, fixed=(), max_items=2, with_spec=True, meta=False):
    gen = inputs.Gen(prog, bounds)
    set_fixed(prog, fixed)

    def setup(ex):
        attr = gen.fn_attr('attr', opts_only, 'Foo')
        item = inputs.input_mod(gen, 'mod', max_items)
        ex.notes['input'] = dict(mode='mod', variant=variant, gen=gen, opts_only=opts_only, max_items=max_items)

        def target(ex, attr, item):
            attr0, item0 = clone_val(attr), clone_val(item)
            apply_variant(ex, variant, Ptr(attr.fields, attr.names.index('opts')))
            out = ex.run_body(prog.bodies['entrait_for_mod'], [new_cell(attr), item])
            if with_spec:
                from . import spec
                ex.notes['obligations'] = spec.spec_mod_mode(ex, variant, attr0, item0, out)
                if meta and ex.notes['obligations'] is not None:
                    metamorphic(ex, prog, 'entrait_for_mod', attr0, item0, variant, out, new_cell)
            return out
        return target, [attr, item]
    return setup


def impl_mode(prog, bounds, sl, with_spec=True):
    gen = inputs.Gen(prog, bounds)
    set_fixed(prog, sl.get('fixed', ()))
    max_items = sl.get('max_items', 2)

    def setup(ex):
        attr = inputs.impl_attr(gen, 'attr')
        item = inputs.input_impl(gen, 'impl', max_items)
        ex.notes['input'] = dict(mode='impl', variant='entrait', gen=gen, max_items=max_items)

        def target(ex, attr, item):
            attr0, item0 = clone_val(attr), clone_val(item)
            out = ex.run_body(prog.bodies['output_tokens_for_impl'], [attr, item])
            if with_spec:
                from . import spec
                ex.notes['obligations'] = spec.spec_impl_mode(ex, attr0, item0, out)
            return out
        return target, [attr, item]
    return setup


def trait_mode(prog, bounds, variant='entrait', sl=None, with_spec=True):
    gen = inputs.Gen(prog, bounds)
    set_fixed(prog, sl.get('fixed', ()))

    def setup(ex):
        attr = inputs.trait_attr(gen, 'attr', sl)
        item = inputs.input_trait(gen, 'trait', sl)
        ex.notes['input'] = dict(mode='trait', variant=variant, gen=gen, sl=sl)

        def target(ex, attr, item):
            attr0, item0 = clone_val(attr), clone_val(item)
            apply_variant(ex, variant, Ptr(attr.fields, attr.names.index('opts')))
            out = ex.run_body(prog.bodies['output_tokens'], [attr, item])
            if with_spec:
                from . import spec
                ex.notes['obligations'] = spec.spec_trait_mode(ex, variant, attr0, item0, out)
                if (sl or {}).get('meta') and ex.notes['obligations'] is not None:
                    metamorphic(ex, prog, 'output_tokens', attr0, item0, variant, out, lambda a: a)
            return out
        return target, [attr, item]
    return setup


def trait_attr_source(attr, model, name_of, P):
    parts = []
    it = attr.f('impl_trait')
    if it.variant == 'Some':
        v = P.flat([('N', 'vis', it.fields[0].fields[0])])
        from . import replay
        parts.append((replay.to_source(v) + ' ' if v else '') + name_of(it.fields[0].fields[1].name))
    from . import replay
    parts += [p for p in replay.opts_source(attr.f('opts'), model)]
    dk = attr.f('delegation_kind')
    if dk.variant == 'Some':
        d = dk.fields[0].fields[0]
        if d.variant == 'BySelf':
            parts.append('delegate_by')
        elif d.variant == 'ByRef':
            parts.append('delegate_by = ref' if d.fields[0].variant == 'AsRef' else 'delegate_by = Borrow')
        else:
            parts.append('delegate_by = ' + name_of(d.fields[0].name))
    return ', '.join(parts)


def rebuild_input(prog, pr):
    """deterministically re-create (attr, item) of a finished path, fully resolved: decisions of the path, default
    (first) alternative for everything the macro never looked at"""
    info = pr.notes['input']
    gen = info['gen']
    ex = sexec.Exec(prog, [])
    ex.decisions = dict(pr.decisions)
    ex.decide = lambda n, label: 0
    ex.assume = lambda c: None
    if info['mode'] == 'fn':
        attr = gen.fn_attr('attr', info['opts_only'], info['trait_name'])
        item = gen.input_fn('fn', info['name'])
    elif info['mode'] == 'mod':
        attr = gen.fn_attr('attr', info['opts_only'], 'Foo')
        item = inputs.input_mod(gen, 'mod', info['max_items'])
    elif info['mode'] == 'impl':
        attr = inputs.impl_attr(gen, 'attr')
        item = inputs.input_impl(gen, 'impl', info['max_items'])
    elif info['mode'] == 'trait':
        attr = inputs.trait_attr(gen, 'attr', info['sl'])
        item = inputs.input_trait(gen, 'trait', info['sl'])
    else:
        raise Unsupported('rebuild for mode ' + info['mode'])
    inputs.deep_force(ex, attr)
    inputs.deep_force(ex, item)
    return attr, item, ex


def item_tokens(prog, mode, item, P):
    """print the (fully resolved) input item the way it was handed to the macro"""
    if mode == 'fn':
        toks = []
        for a in item.f('fn_attrs').items:
            P.node(a, toks)
        P.node(item.f('fn_vis'), toks)
        P.node(item.f('fn_sig'), toks)
        toks += P.flat(item.f('fn_body').toks)
        return toks
    if mode == 'mod':
        toks = []
        for a in item.f('attrs').items:
            P.node(a, toks)
        P.node(item.f('vis'), toks)
        P.ident(toks, 'mod')
        P.node(item.f('ident'), toks)
        inner = []
        for it in item.f('items').items:
            inner += mod_item_tokens(it, P)
        toks.append(('G', '{', inner, 'input'))
        return toks
    if mode == 'impl':
        toks = []
        for a in item.f('attrs').items:
            P.node(a, toks)
        P.node(item.f('unsafety'), toks)
        P.ident(toks, 'impl')
        P.node(item.f('trait_path'), toks)
        P.ident(toks, 'for')
        P.node(item.f('self_ty'), toks)
        inner = []
        for it in item.f('items').items:
            inner += mod_item_tokens(it, P)
        toks.append(('G', '{', inner, 'input'))
        return toks
    if mode == 'trait':
        toks = []
        P.node(item, toks)
        return toks
    raise Unsupported('item_tokens for ' + mode)


def mod_item_tokens(it, P):
    toks = []
    inner = it.fields[0]
    if it.variant in ('PubFn', 'Fn'):
        f = inner.fields[0]
        for a in f.f('fn_attrs').items:
            P.node(a, toks)
        P.node(f.f('fn_vis'), toks)
        P.node(f.f('fn_sig'), toks)
        toks += P.flat(f.f('fn_body').toks)
    else:
        for a in inner.f('attrs').items:
            P.node(a, toks)
        P.node(inner.f('vis'), toks)
        toks += P.flat(inner.f('tokens').toks)
    return toks


def impl_attr_source(attr, model):
    k = attr.f('impl_kind')
    return 'ref' if k.variant == 'DynRef' else ''


# ---------------------------------------------------------------------------
# front end: attribute lists parsed by entrait's own Parse impls over a symbolic token list
# ---------------------------------------------------------------------------

ATTR_TYPE = {'fn': 'EntraitFnAttr', 'mod': 'EntraitFnAttr', 'trait': 'EntraitTraitAttr', 'impl': 'EntraitSimpleImplAttr'}
BACKEND = {'fn': 'entrait_for_single_fn', 'mod': 'entrait_for_mod', 'trait': 'output_tokens', 'impl': 'output_tokens_for_impl'}


def fixed_item(prog, target):
    """a small concrete item of each kind, so that the whole `invoke` pipeline (parse attribute -> expand) is exercised"""
    A = prog.ast
    G = inputs.Gen(prog, inputs.Bounds())

    def simple_fn(name, vis):
        sig = A.signature(A.ident(name), [A.fn_arg_typed(A.pat_ident(A.ident('deps')), A.type_ref(A.type_impl_trait([G.bound('B0')]))),
                                          A.fn_arg_typed(A.pat_ident(A.ident('p1')), A.type_path_ident(A.ident('u32')))])
        return ssetup.local_node(prog, 'InputFn', fn_attrs=VecObj([]), fn_vis=vis, fn_sig=sig, fn_body=G.body('b'))
    if target == 'fn':
        return simple_fn('foo', A.vis_inherited())
    if target == 'mod':
        return ssetup.local_node(prog, 'InputMod', attrs=VecObj([]), vis=A.vis_inherited(), mod_token=Tok('Mod'), ident=A.ident('m'), brace_token=Tok('Brace'),
                                 items=VecObj([Obj('ModItem', 'PubFn', [Obj('Box', None, [simple_fn('f0', A.vis_pub())])])]))
    if target == 'impl':
        return ssetup.local_node(prog, 'InputImpl', attrs=VecObj([]), unsafety=NONE(), impl_token=Tok('Impl'), trait_path=A.path([A.ident('FooImpl')]),
                                 for_token=Tok('For'), self_ty=A.type_path_ident(A.ident('MyImpl')), brace_token=Tok('Brace'),
                                 items=VecObj([Obj('ImplItem', 'Fn', [Obj('Box', None, [simple_fn('f0', A.vis_inherited())])])]))
    if target == 'trait':
        sig = A.signature(A.ident('m0'), [A.receiver(reference=True), A.fn_arg_typed(A.pat_ident(A.ident('q1')), A.type_path_ident(A.ident('u32')))])
        m = A.enum('TraitItem', 'Fn', A.node('TraitItemFn', sig=sig, default=NONE(), semi_token=NONE()))
        return A.node('ItemTrait', vis=A.vis_inherited(), unsafety=NONE(), auto_token=NONE(), restriction=NONE(), ident=A.ident('Tr'),
                      generics=A.generics([], None), colon_token=NONE(), supertraits=Punct([], 'Plus'), items=VecObj([m]))
    raise ValueError(target)


def front_mode(prog, sl, with_spec=True):
    from . import front
    target = sl['target']
    variant = sl.get('variant', 'entrait')
    n = sl.get('max_tokens', 6)
    alpha, labels = front.attr_alphabet()
    set_fixed(prog, sl.get('fixed', ()))

    def setup(ex):
        if sl.get('items'):
            cells = front.attr_item_cells(target, sl['items'], sl.get('head', target in ('fn', 'mod')), sl.get('reduced', False))
        else:
            cells = front.sym_tokens('a', n, alpha, labels)
        pb = front.PBuf(cells, 0, 'a')
        ex.notes['input'] = dict(mode='front', target=target, variant=variant, n=n, items=sl.get('items'),
                                 head=sl.get('head', target in ('fn', 'mod')), reduced=sl.get('reduced', False))

        def run(ex, pb):
            body = prog.ix.methods[(ATTR_TYPE[target], 'Parse', 'parse')]
            r = ex.force(ex.run_body(prog.bodies[body], [new_cell(pb)]))
            if r.variant == 'Ok' and front.tok_at(ex, pb) != front.END:
                # syn::parse / parse_macro_input!: the whole stream must be consumed
                r = Err(Obj('Error', None, [front.span_at(pb), 'unexpected token'], ['span', 'message']))
            parsed = r
            out = r
            attr0 = None
            if r.variant == 'Ok':
                attr = r.fields[0]
                attr0 = clone_val(attr)
                apply_variant(ex, variant, Ptr(attr.fields, attr.names.index('opts')))
                item = fixed_item(prog, target)
                a = new_cell(attr) if target in ('fn', 'mod') else attr
                out = ex.run_body(prog.bodies[BACKEND[target]], [a, item])
            if with_spec:
                from . import spec
                ex.notes['obligations'] = spec.spec_front_attr(ex, target, cells, parsed, attr0)
            ex.notes['cells'] = cells
            return out
        return run, [pb]
    return setup


def front_item_cells(front, sl):
    raise NotImplementedError


def front_item_mode(prog, sl, with_spec=True):
    """module / impl-block bodies and single fn items as symbolic token lists, parsed by entrait's own item parsers"""
    from . import front
    what = sl['what']          # 'mod' | 'impl' | 'fn'
    n = sl.get('max_tokens', 5)
    set_fixed(prog, sl.get('fixed', ()))
    G = inputs.Gen(prog, inputs.Bounds())

    def make_cells():
        layout = sl.get('layout')
        if not layout:
            return front.sym_item_tokens('t', n)
        cells = front.layout_cells(layout)
        return cells

    def setup(ex):
        cells = make_cells()
        ex.notes['input'] = dict(mode='front-item', what=what, variant='entrait', n=n, layout=sl.get('layout'))
        if what == 'mod':
            top = [('I', 'mod'), ('I', 'm'), ('G', '{', cells)]
        elif what == 'impl':
            top = [('I', 'impl'), ('I', 'FooImpl'), ('I', 'for'), ('I', 'MyImpl'), ('G', '{', cells)]
        else:
            top = cells
        pb = front.PBuf(top, 0, 'item')

        def run(ex, pb):
            body = prog.ix.methods[('Input', 'Parse', 'parse')]
            r = ex.force(ex.run_body(prog.bodies[body], [new_cell(pb)]))
            if r.variant == 'Ok' and front.tok_at(ex, pb) != front.END:
                r = Err(Obj('Error', None, [front.span_at(pb), 'unexpected token'], ['span', 'message']))
            out = r
            parsed = r
            if r.variant == 'Ok':
                inp = r.fields[0]
                A = prog.ast
                if inp.variant in ('Fn', 'Mod'):
                    attr = G.fn_attr('attr', (), 'Foo')
                    attr.fields[attr.names.index('trait_visibility')] = A.vis_inherited()
                    a = new_cell(attr)
                    out = ex.run_body(prog.bodies['entrait_for_single_fn' if inp.variant == 'Fn' else 'entrait_for_mod'], [a, inp.fields[0]])
                elif inp.variant == 'Impl':
                    attr = ssetup.local_node(prog, 'EntraitSimpleImplAttr', impl_kind=Obj('ImplKind', 'Static', []),
                                             opts=G.opts('o', ()), crate_idents=G.crate_idents())
                    out = ex.run_body(prog.bodies['output_tokens_for_impl'], [attr, inp.fields[0]])
                else:
                    attr = ssetup.local_node(prog, 'EntraitTraitAttr', impl_trait=NONE(), opts=G.opts('o', ()), delegation_kind=NONE(), crate_idents=G.crate_idents())
                    out = ex.run_body(prog.bodies['output_tokens'], [attr, inp.fields[0]])
            if with_spec:
                from . import spec
                ex.notes['obligations'] = spec.spec_front_item(ex, what, cells, parsed, out)
            return out
        return run, [pb]
    return setup
