"""Entry points: set up a symbolic input, run one of the macro's modes, hand each path to the caller."""
import re, time
from .values import *
from . import exec as sexec, inputs, setup as ssetup, synprint

VARIANT_CLOSURE = {
    'entrait': 'entrait::{closure#0}',
    'entrait_export': 'entrait_export::{closure#0}',
    'entrait_unimock': 'entrait_unimock::{closure#0}',
    'entrait_export_unimock': 'entrait_export_unimock::{closure#0}',
}


def apply_variant(ex, variant, opts_ptr):
    """the per-macro-name `opts_modifier` closure that `invoke` applies after parsing the attribute"""
    name = VARIANT_CLOSURE[variant]
    body = ex.prog.bodies[name]
    clo = Obj('closure', 'variant', [], [])
    ex.run_body(body, [clo, opts_ptr])


def set_fixed(prog, fixed):
    prog.fixed = [(re.compile(rx), what) for rx, what in fixed]


def fn_mode(prog, bounds, variant='entrait', opts_only=None, fixed=(), name='foo', trait_name='Foo', with_spec=True):
    gen = inputs.Gen(prog, bounds)
    set_fixed(prog, fixed)

    def setup(ex):
        attr = gen.fn_attr('attr', opts_only, trait_name)
        item = gen.input_fn('fn', name)
        ex.notes['input'] = dict(mode='fn', variant=variant, gen=gen, opts_only=opts_only, name=name, trait_name=trait_name)

        def target(ex, attr, item):
            attr0, item0 = clone_val(attr), clone_val(item)   # pristine copies for the spec (lazy leaves shared by key)
            apply_variant(ex, variant, Ptr(attr.fields, attr.names.index('opts')))
            out = ex.run_body(prog.bodies['entrait_for_single_fn'], [new_cell(attr), item])
            if with_spec:
                from . import spec
                ex.notes['obligations'] = spec.spec_fn_mode(ex, variant, attr0, item0, out)
            return out
        return target, [attr, item]
    return setup


def rebuild_input(prog, pr):
    """deterministically re-create (attr, item) of a finished path, fully resolved: decisions of the path, default
    (first) alternative for everything the macro never looked at"""
    info = pr.notes['input']
    gen = info['gen']
    ex = sexec.Exec(prog, [])
    ex.decisions = dict(pr.decisions)
    ex.decide = lambda n, label: 0
    ex.assume = lambda c: None
    if info['mode'] == 'fn':
        attr = gen.fn_attr('attr', info['opts_only'], info['trait_name'])
        item = gen.input_fn('fn', info['name'])
    else:
        raise Unsupported('rebuild for mode ' + info['mode'])
    inputs.deep_force(ex, attr)
    inputs.deep_force(ex, item)
    return attr, item, ex


def item_tokens(prog, mode, item, P):
    """print the (fully resolved) input item the way it was handed to the macro"""
    if mode == 'fn':
        toks = []
        for a in item.f('fn_attrs').items:
            P.node(a, toks)
        P.node(item.f('fn_vis'), toks)
        P.node(item.f('fn_sig'), toks)
        toks += P.flat(item.f('fn_body').toks)
        return toks
    raise Unsupported('item_tokens for ' + mode)
