"""Builders for syn AST values with the field order syn declares (MIR projects by index)."""

from .values import *

TOKEN_FIELDS = {
    'fn_token': 'Fn', 'paren_token': 'Paren', 'colon_token': 'Colon', 'and_token': 'And', 'self_token': 'SelfValue',
    'pound_token': 'Pound', 'bracket_token': 'Bracket', 'brace_token': 'Brace', 'where_token': 'Where',
    'impl_token': 'Impl', 'trait_token': 'Trait', 'pub_token': 'Pub', 'underscore_token': 'Underscore',
    'eq_token': 'Eq', 'semi_token': 'Semi', 'const_token': 'Const', 'type_token': 'Type', 'extern_token': 'Extern',
    'lt_token': 'Lt', 'gt_token': 'Gt', 'dyn_token': 'Dyn', 'apostrophe': None,
}


class Ast:
    def __init__(self, layout):
        self.L = layout

    def node(self, _ty, **kw):
        ty = _ty
        decl = self.L.syn_structs.get(ty)
        if decl is None:
            decl = self.L.struct_fields(ty)
        if not isinstance(decl, list):
            raise KeyError('no layout for ' + ty)
        fields = []
        for n in decl:
            if n in kw:
                fields.append(kw.pop(n))
            elif n == 'attrs':
                fields.append(VecObj([]))
            elif n in TOKEN_FIELDS and TOKEN_FIELDS[n]:
                fields.append(Tok(TOKEN_FIELDS[n], Span(('input', ty))))
            else:
                raise KeyError(f'{ty}: field {n} not given')
        assert not kw, (ty, kw)
        return Obj(ty, None, fields, list(decl))

    def enum(self, ty, variant, *fields):
        assert variant in self.L.enum_variants(ty), (ty, variant)
        return Obj(ty, variant, list(fields))

    # ---- leaves -------------------------------------------------------------
    def ident(self, name, label=None, origin='input', raw=False):
        return Ident(name, Span(('input', label or (name if isinstance(name, str) else str(name)))), origin, raw)

    def lifetime(self, name, origin='input'):
        return Obj('Lifetime', None, [Span(('input', 'lt')), Ident(name, Span(('input', 'lt')), origin)], ['apostrophe', 'ident'])

    # ---- paths / types ----------------------------------------------------------
    def path(self, idents, leading=False, args_last=None):
        segs = []
        for i, idn in enumerate(idents):
            a = self.enum('PathArguments', 'None')
            if args_last is not None and i == len(idents) - 1:
                a = args_last
            segs.append(self.node('PathSegment', ident=idn, arguments=a))
        return self.node('Path', leading_colon=Some(Tok('PathSep')) if leading else NONE(), segments=Punct(segs, 'PathSep'))

    def angle_args(self, types):
        ab = self.node('AngleBracketedGenericArguments', colon2_token=NONE(),
                       args=Punct([self.enum('GenericArgument', 'Type', t) for t in types], 'Comma'))
        return self.enum('PathArguments', 'AngleBracketed', ab)

    def type_path(self, path):
        return self.enum('Type', 'Path', self.node('TypePath', qself=NONE(), path=path))

    def type_path_ident(self, idn):
        return self.type_path(self.path([idn]))

    def type_ref(self, elem, lifetime=None, mutable=False):
        return self.enum('Type', 'Reference', self.node('TypeReference', lifetime=Some(lifetime) if lifetime else NONE(),
                                                        mutability=Some(Tok('Mut')) if mutable else NONE(),
                                                        elem=Obj('Box', None, [elem])))

    def type_paren(self, elem):
        return self.enum('Type', 'Paren', self.node('TypeParen', elem=Obj('Box', None, [elem])))

    def type_impl_trait(self, bounds):
        return self.enum('Type', 'ImplTrait', self.node('TypeImplTrait', bounds=Punct(bounds, 'Plus')))

    def type_tuple(self, elems):
        return self.enum('Type', 'Tuple', self.node('TypeTuple', elems=Punct(elems, 'Comma')))

    def type_verbatim(self, toks):
        return self.enum('Type', 'Verbatim', TS(list(toks)))

    def type_never(self):
        return self.enum('Type', 'Never', self.node('TypeNever', bang_token=Tok('Not')))

    def type_slice(self, elem):
        return self.enum('Type', 'Slice', self.node('TypeSlice', elem=Obj('Box', None, [elem])))

    def bound_trait(self, path, maybe=False):
        return self.enum('TypeParamBound', 'Trait', self.node('TraitBound', paren_token=NONE(),
                                                              modifier=self.enum('TraitBoundModifier', 'Maybe', Tok('Question')) if maybe
                                                              else self.enum('TraitBoundModifier', 'None'),
                                                              lifetimes=NONE(), path=path))

    def bound_lifetime(self, lt):
        return self.enum('TypeParamBound', 'Lifetime', lt)

    def bound_verbatim(self, toks):
        return self.enum('TypeParamBound', 'Verbatim', TS(list(toks)))

    # ---- patterns -------------------------------------------------------------------
    def pat_ident(self, idn, by_ref=False, mutable=False, subpat=None):
        return self.enum('Pat', 'Ident', self.node('PatIdent', by_ref=Some(Tok('Ref')) if by_ref else NONE(),
                                                   mutability=Some(Tok('Mut')) if mutable else NONE(), ident=idn,
                                                   subpat=Some(Obj('tuple', None, [Tok('At'), Obj('Box', None, [subpat])])) if subpat else NONE()))

    def pat_wild(self):
        return self.enum('Pat', 'Wild', self.node('PatWild'))

    def pat_tuple(self, elems):
        return self.enum('Pat', 'Tuple', self.node('PatTuple', elems=Punct(elems, 'Comma')))

    def pat_tuple_struct(self, path, elems):
        return self.enum('Pat', 'TupleStruct', self.node('PatTupleStruct', qself=NONE(), path=path, elems=Punct(elems, 'Comma')))

    def pat_struct(self, path, fields, rest=False):
        return self.enum('Pat', 'Struct', self.node('PatStruct', qself=NONE(), path=path, fields=Punct(fields, 'Comma'),
                                                    rest=Some(self.node('PatRest', dot2_token=Tok('DotDot'))) if rest else NONE()))

    def field_pat(self, member_ident, pat, shorthand):
        return self.node('FieldPat', member=self.enum('Member', 'Named', member_ident),
                         colon_token=NONE() if shorthand else Some(Tok('Colon')), pat=Obj('Box', None, [pat]))

    def pat_reference(self, pat, mutable=False):
        return self.enum('Pat', 'Reference', self.node('PatReference', mutability=Some(Tok('Mut')) if mutable else NONE(),
                                                       pat=Obj('Box', None, [pat])))

    def pat_paren(self, pat):
        return self.enum('Pat', 'Paren', self.node('PatParen', pat=Obj('Box', None, [pat])))

    # ---- signature ---------------------------------------------------------------------
    def fn_arg_typed(self, pat, ty, attrs=None):
        return self.enum('FnArg', 'Typed', self.node('PatType', attrs=attrs if attrs is not None else VecObj([]),
                                                     pat=Obj('Box', None, [pat]), ty=Obj('Box', None, [ty])))

    def receiver(self, reference=True, lifetime=None, mutable=False, attrs=None):
        ty = self.type_ref(self.type_path_ident(Ident('Self', CALL_SITE, 'input')), lifetime, mutable) if reference \
            else self.type_path_ident(Ident('Self', CALL_SITE, 'input'))
        return self.enum('FnArg', 'Receiver', self.node(
            'Receiver', attrs=attrs if attrs is not None else VecObj([]),
            reference=Some(Obj('tuple', None, [Tok('And'), Some(lifetime) if lifetime else NONE()])) if reference else NONE(),
            mutability=Some(Tok('Mut')) if mutable else NONE(), colon_token=NONE(), ty=Obj('Box', None, [ty])))

    def generic_type_param(self, idn, bounds, attrs=None):
        return self.enum('GenericParam', 'Type', self.node('TypeParam', attrs=attrs if attrs is not None else VecObj([]),
                                                           ident=idn, colon_token=Some(Tok('Colon')) if bounds else NONE(),
                                                           bounds=Punct(bounds, 'Plus'), eq_token=NONE(), default=NONE()))

    def generic_lifetime_param(self, lt, bounds=()):
        return self.enum('GenericParam', 'Lifetime', self.node('LifetimeParam', lifetime=lt,
                                                               colon_token=Some(Tok('Colon')) if bounds else NONE(),
                                                               bounds=Punct(list(bounds), 'Plus')))

    def generic_const_param(self, idn, ty):
        return self.enum('GenericParam', 'Const', self.node('ConstParam', ident=idn, ty=ty, eq_token=NONE(), default=NONE()))

    def where_pred_type(self, bounded_ty, bounds):
        return self.enum('WherePredicate', 'Type', self.node('PredicateType', lifetimes=NONE(), bounded_ty=bounded_ty,
                                                             bounds=Punct(bounds, 'Plus')))

    def where_pred_lifetime(self, lt, bounds):
        return self.enum('WherePredicate', 'Lifetime', self.node('PredicateLifetime', lifetime=lt, bounds=Punct(bounds, 'Plus')))

    def generics(self, params, where_preds):
        wc = NONE() if where_preds is None else Some(self.node('WhereClause', predicates=Punct(where_preds, 'Comma')))
        return self.node('Generics', lt_token=Some(Tok('Lt')) if params else NONE(), params=Punct(params, 'Comma'),
                         gt_token=Some(Tok('Gt')) if params else NONE(), where_clause=wc)

    def return_type(self, ty):
        return self.enum('ReturnType', 'Type', Tok('RArrow'), Obj('Box', None, [ty]))

    def return_default(self):
        return self.enum('ReturnType', 'Default')

    def signature(self, ident, inputs, generics=None, output=None, asyncness=False, unsafety=False, constness=False, abi=None):
        return self.node('Signature', constness=Some(Tok('Const')) if constness else NONE(),
                         asyncness=Some(Tok('Async')) if asyncness else NONE(),
                         unsafety=Some(Tok('Unsafe')) if unsafety else NONE(),
                         abi=Some(abi) if abi is not None else NONE(), ident=ident,
                         generics=generics if generics is not None else self.generics([], None),
                         inputs=Punct(inputs, 'Comma'), variadic=NONE(),
                         output=output if output is not None else self.return_default())

    def abi(self, name=None):
        return self.node('Abi', name=Some(Obj('LitStr', None, ['"' + name + '"'])) if name else NONE())

    # ---- attributes / visibility ----------------------------------------------------------
    def attr_path(self, path):
        return self.node('Attribute', style=self.enum('AttrStyle', 'Outer'), meta=self.enum('Meta', 'Path', path))

    def attr_list(self, path, toks):
        ml = self.node('MetaList', path=path, delimiter=self.enum('MacroDelimiter', 'Paren', Tok('Paren')), tokens=TS(list(toks)))
        return self.node('Attribute', style=self.enum('AttrStyle', 'Outer'), meta=self.enum('Meta', 'List', ml))

    def attr_doc(self, text):
        nv = self.node('MetaNameValue', path=self.path([self.ident('doc')]), value=Obj('Opaque', None, ['expr', [('L', '"' + text + '"', 'input')]]))
        return self.node('Attribute', style=self.enum('AttrStyle', 'Outer'), meta=self.enum('Meta', 'NameValue', nv))

    def vis_inherited(self):
        return self.enum('Visibility', 'Inherited')

    def vis_pub(self):
        return self.enum('Visibility', 'Public', Tok('Pub', Span(('input', 'vis'))))

    def vis_restricted(self, path_idents, with_in=False):
        return self.enum('Visibility', 'Restricted', self.node('VisRestricted', in_token=Some(Tok('In')) if with_in else NONE(),
                                                               path=Obj('Box', None, [self.path(path_idents)])))
