"""Build a Program from /repo's current working tree: dump MIR with the nightly compiler, parse it."""
import hashlib, os, shutil, subprocess, tempfile, time
from . import parse, layout, exec as sexec, models, synprint, ast
from .values import *

VERIF = os.path.dirname(os.path.dirname(os.path.abspath(__file__)))
CACHE = os.environ.get('VERIF_CACHE') or os.path.join(VERIF, '.cache')


def dump_mir(repo='/repo'):
    """copy entrait_macros to a scratch dir outside /repo and /verif, dump MIR, remove the copy"""
    t0 = time.time()
    scratch = tempfile.mkdtemp(prefix='entrait_mir_', dir='/tmp')
    try:
        dst = os.path.join(scratch, 'entrait_macros')
        shutil.copytree(os.path.join(repo, 'entrait_macros'), dst, ignore=shutil.ignore_patterns('target'))
        shutil.copy(os.path.join(repo, 'Cargo.lock'), os.path.join(dst, 'Cargo.lock'))
        with open(os.path.join(dst, 'Cargo.toml'), 'a') as f:
            f.write('\n[workspace]\n')
        env = dict(os.environ, CARGO_NET_OFFLINE='true', CARGO_TARGET_DIR=os.path.join(CACHE, 'mir-target'))
        r = subprocess.run(['cargo', '+nightly', 'rustc', '--offline', '--lib', '--', '-Zunpretty=mir',
                            '-C', 'debug-assertions=off', '-C', 'overflow-checks=on'],
                           cwd=dst, env=env, capture_output=True, text=True, timeout=900)
        if r.returncode != 0 or 'fn ' not in r.stdout:
            raise RuntimeError('MIR dump failed:\n' + r.stderr[-3000:])
        return r.stdout, time.time() - t0
    finally:
        shutil.rmtree(scratch, ignore_errors=True)


def load_program(repo='/repo', mir_text=None, solver_timeout_ms=10000):
    dt = 0.0
    if mir_text is None:
        mir_text, dt = dump_mir(repo)
    bodies = parse.parse_mir(mir_text)
    L = layout.Layout(repo)
    synprint.LAYOUT = L
    from . import front  # registers the ParseBuffer models
    prog = sexec.Program(bodies, L, models.Models(), repo, solver_timeout_ms)
    prog.ast = ast.Ast(L)
    prog.mir_dump_s = dt
    prog.mir_lines = mir_text.count('\n')
    prog.mir_sha = hashlib.sha256(mir_text.encode()).hexdigest()[:16]
    return prog


def local_node(prog, ty, **kw):
    decl = prog.layout.local_structs[ty]
    assert isinstance(decl, list), ty
    fields = []
    for n in decl:
        fields.append(kw.pop(n))
    assert not kw, kw
    return Obj(ty, None, fields, list(decl))
