"""Concretisation of explored paths into Rust source, expansion by the REAL proc-macro (recorder hook on),
and comparison of the executor's predicted tokens with the recorded ones (translator validation / replay)."""

import json, os, shutil, subprocess, time
import z3
from .values import *
from . import synprint, rsview, drive, exec as sexec

VERIF = os.path.dirname(os.path.dirname(os.path.abspath(__file__)))
REPO = os.environ.get('VERIF_REPO', '/repo')
CACHE = os.environ.get('VERIF_CACHE') or os.path.join(VERIF, '.cache')
WORK = os.environ.get('VERIF_WORK') or os.path.join(VERIF, 'work')


def to_source(toks):
    close = {'(': ')', '{': '}', '[': ']', '': ''}
    parts = []
    for t in toks:
        k = t[0]
        if k == 'G':
            parts.append(t[1] + ' ' + to_source(t[2]) + ' ' + close[t[1]])
        elif k == 'LT':
            parts.append("'" + t[1])
        else:
            assert isinstance(t[1], str), t
            parts.append(t[1])
    return ' '.join(parts)


def path_model(pr):
    """a satisfying assignment of the path condition (names, option values)"""
    s = z3.Solver()
    s.set('timeout', 20000)
    for c in pr.pc:
        s.add(c)
    r = s.check()
    if r != z3.sat:
        raise Unsupported(f'path condition not satisfiable at concretisation ({r})')
    return s.model()


def namer(model):
    def name_of(t):
        if isinstance(t, str):
            return t
        v = model.eval(t, model_completion=True)
        if z3.is_string_value(v):
            s = v.as_string()
            return s if s else 'x'
        raise Unsupported('cannot concretise ' + str(t))
    return name_of


def bool_of(model, v, default=True):
    if isinstance(v, bool):
        return v
    r = model.eval(v, model_completion=False)
    if z3.is_true(r):
        return True
    if z3.is_false(r):
        return False
    return default


def opts_source(opts, model, extra_first=()):
    parts = list(extra_first)
    for name in ('no_deps', 'export', 'unimock', 'mockall', 'debug'):
        o = opts.f(name)
        if isinstance(o, Obj) and o.variant == 'Some':
            parts.append(f'{name} = {"true" if bool_of(model, o.fields[0].fields[0]) else "false"}')
    ma = opts.f('mock_api')
    if isinstance(ma, Obj) and ma.variant == 'Some':
        parts.append('mock_api = ' + namer(model)(ma.fields[0].fields[0].name))
    fs = opts.f('future_send')
    if isinstance(fs, Obj) and fs.variant == 'Some':
        parts.append('?Send')
    return parts


def normalised_opts_source(opts, model, variant):
    """concrete counterpart of drive.normalised_attr"""
    from .spec import EXPORT_VARIANTS, UNIMOCK_VARIANTS
    vals = {}
    for name in ('no_deps', 'export', 'unimock', 'mockall', 'debug'):
        o = opts.f(name)
        if isinstance(o, Obj) and o.variant == 'Some':
            vals[name] = bool_of(model, o.fields[0].fields[0])
    if variant in EXPORT_VARIANTS and 'export' not in vals:
        vals['export'] = True
    if variant in UNIMOCK_VARIANTS and 'unimock' not in vals:
        vals['unimock'] = True
    for name in ('no_deps', 'export'):
        if vals.get(name) is False:
            del vals[name]
    parts = [f'{n} = {"true" if vals[n] else "false"}' for n in ('no_deps', 'export', 'unimock', 'mockall', 'debug') if n in vals]
    ma = opts.f('mock_api')
    if isinstance(ma, Obj) and ma.variant == 'Some':
        parts.append('mock_api = ' + namer(model)(ma.fields[0].fields[0].name))
    fs = opts.f('future_send')
    if isinstance(fs, Obj) and fs.variant == 'Some':
        parts.append('?Send')
    return parts


def concretize(prog, pr, model=None):
    """-> dict(macro, attr_src, item_src, model, attr, item)"""
    model = model or path_model(pr)
    if pr.notes['input']['mode'] == 'front':
        return concretize_front(prog, pr, model)
    if pr.notes['input']['mode'] == 'front-item':
        return concretize_front_item(prog, pr, model)
    attr, item, ex2 = drive.rebuild_input(prog, pr)
    P = synprint.Printer(name_of=namer(model), resolve=lambda s: ex2.force(s))
    info = pr.notes['input']
    mode = info['mode']
    if mode in ('fn', 'mod'):
        vis = P.flat([('N', 'vis', attr.f('trait_visibility'))])
        head = to_source(vis + P.flat([('N', 'id', attr.f('trait_ident'))]))
        attr_src = ', '.join([head] + opts_source(attr.f('opts'), model))
    elif mode == 'trait':
        attr_src = drive.trait_attr_source(attr, model, namer(model), P)
    elif mode == 'impl':
        attr_src = drive.impl_attr_source(attr, model)
    else:
        raise Unsupported(mode)
    item_toks = drive.item_tokens(prog, mode, item, P)
    conc = dict(macro=info['variant'], attr_src=attr_src, item_src=to_source(item_toks), model=model, attr=attr, item=item,
                item_flat=rsview.split_flat(item_toks), printer=P)
    if 'meta_out2' in pr.notes and mode in ('fn', 'mod', 'trait'):
        # the canonical spelling of the same invocation (C17), expanded next to it on replay
        norm = normalised_opts_source(attr.f('opts'), model, info['variant'])
        if mode == 'trait':
            full = drive.trait_attr_source(attr, model, namer(model), P)
            own = opts_source(attr.f('opts'), model)
            keep = [x.strip() for x in full.split(',') if x.strip() and x.strip() not in own]
            twin_attr = ', '.join(keep + norm)
        else:
            twin_attr = ', '.join([head] + norm)
        conc['twin_attr_src'] = twin_attr
    return conc


def predicted_flat(pr, conc, v=None):
    """the executor's output for this path as comparison-form tokens, concretised by the model"""
    v = pr.value if v is None else v
    P = conc['printer']
    if pr.kind == 'ok' and v.variant == 'Ok':
        return rsview.split_flat(P.flat(v.fields[0].toks))
    if pr.kind == 'ok' and v.variant == 'Err':
        e = v.fields[0]
        return rsview.split_flat(P.flat([('COMPILE_ERROR', e.fields[1], e.fields[0])]))
    return None


CLIENT_TOML = '''[package]
name = "sclient"
version = "0.0.0"
edition = "2021"

[dependencies]
entrait = {{ path = "{repo}" }}
entrait_macros = {{ path = "{repo}/entrait_macros" }}

[workspace]
'''


def expand_batch(cases, name='s_validate'):
    """cases: list of dict(macro, attr_src, item_src). Expands all with the real macro (hook on).
    Returns (records, log): records = list of dict(attr, input, output|panic) in recorder order."""
    d = os.path.join(WORK, name)
    if os.path.exists(d):
        shutil.rmtree(d)
    os.makedirs(os.path.join(d, 'src'))
    open(os.path.join(d, 'Cargo.toml'), 'w').write(CLIENT_TOML.format(repo=REPO))
    shutil.copy(os.path.join(REPO, 'Cargo.lock'), os.path.join(d, 'Cargo.lock'))
    src = '#![allow(unused, non_snake_case, non_camel_case_types)]\n'
    for i, c in enumerate(cases):
        src += f'mod case{i} {{\n    #[::entrait_macros::{c["macro"]}({c["attr_src"]})]\n    {c["item_src"]}\n}}\n'
    open(os.path.join(d, 'src', 'lib.rs'), 'w').write(src)
    dump = os.path.join(d, 'dump.jsonl')
    env = dict(os.environ, CARGO_NET_OFFLINE='true', RUSTFLAGS='--cfg audunhalland_entrait_verif', ENTRAIT_VERIF_DUMP=dump,
               CARGO_TARGET_DIR=os.path.join(CACHE, 's-validate-target'))
    t = time.time()
    r = subprocess.run(['cargo', 'check', '--offline', '--message-format=short'], cwd=d, env=env, capture_output=True, text=True, timeout=1800)
    recs = []
    if os.path.exists(dump):
        for line in open(dump):
            try:
                recs.append(json.loads(line))
            except Exception:
                pass
    return recs, r.stderr, time.time() - t


def rec_split(js):
    return rsview.split_flat(rsview.from_recorded(js))


def lex_source_flat(src):
    raise NotImplementedError


def validate(prog, paths, name='s_validate', max_report=5):
    """translator validation: paths (kind ok) -> (n_validated, mismatches[list of dict])"""
    cases = []
    for pr in paths:
        try:
            conc = concretize(prog, pr)
        except Unsupported as e:
            cases.append(dict(error=str(e)))
            continue
        conc['pred'] = predicted_flat(pr, conc)
        conc['pr'] = pr
        cases.append(conc)
    good = [c for c in cases if 'error' not in c]
    recs, log, dt = expand_batch(good, name)
    by_input = {}
    for r in recs:
        key = json.dumps(rec_split(r['input']))
        by_input.setdefault(key, []).append(r)
    n_ok = 0
    mism = []
    for i, c in enumerate(good):
        key = json.dumps(c['item_flat'])
        cands = by_input.get(key, [])
        if not cands:
            mism.append(dict(case=i, why='no recorded expansion with this input (client did not parse / expand?)',
                             attr=c['attr_src'], item=c['item_src'][:300]))
            continue
        matched = False
        panicked = any(r.get('panic') for r in cands)
        for r in cands:
            if 'output' in r and json.dumps(rec_split(r['output'])) == json.dumps(c['pred']):
                matched = True
                break
        if c['pr'].kind == 'panic' and panicked:
            matched = True
        if matched:
            n_ok += 1
        else:
            r = cands[0]
            mism.append(dict(case=i, why='predicted tokens differ from the real expansion', attr=c['attr_src'], item=c['item_src'][:400],
                             predicted=rsview.show(unsplit(c['pred']))[:1500] if c['pred'] else str(c['pr'].kind),
                             recorded=rsview.show(unsplit(rec_split(r['output'])))[:1500] if 'output' in r else 'PANIC'))
    errs = [c for c in cases if 'error' in c]
    return n_ok, mism, errs, dict(client_wall_s=round(dt, 1), records=len(recs), cases=len(good), log_tail=log[-800:])


def unsplit(flat):
    return [(t[0], t[1], unsplit(t[2])) if t[0] == 'G' else t for t in flat]


def write_replay_dir(path, case, meta):
    """a self-contained client crate reproducing one S counterexample against the real macro"""
    if os.path.exists(path):
        shutil.rmtree(path)
    os.makedirs(os.path.join(path, 'src'))
    open(os.path.join(path, 'Cargo.toml'), 'w').write(CLIENT_TOML.format(repo=REPO))
    shutil.copy(os.path.join(REPO, 'Cargo.lock'), os.path.join(path, 'Cargo.lock'))
    open(os.path.join(path, 'src', 'lib.rs'), 'w').write(
        '#![allow(unused, non_snake_case, non_camel_case_types)]\n'
        f'mod case0 {{\n    #[::entrait_macros::{case["macro"]}({case["attr_src"]})]\n    {case["item_src"]}\n}}\n' +
        (f'mod case1 {{\n    #[::entrait_macros::{case["twin"]["macro"]}({case["twin"]["attr_src"]})]\n    {case["twin"]["item_src"]}\n}}\n'
         if case.get('twin') else ''))
    json.dump(dict(kind='smir', case=case, **meta,
                   how='RUSTFLAGS="--cfg audunhalland_entrait_verif" ENTRAIT_VERIF_DUMP=dump.jsonl cargo check --offline ; '
                       'the recorded output equals `predicted`, on which the obligation named in `role` fails'),
              open(os.path.join(path, 'replay.json'), 'w'), indent=1, default=str)


def replay_dir(path):
    meta = json.load(open(os.path.join(path, 'replay.json')))
    case = meta['case']
    recs, log, dt = expand_batch([case] + ([case['twin']] if case.get('twin') else []), name='s_replay_one')
    if case.get('twin'):
        outs = [rec_split(r['output']) if 'output' in r else None for r in recs]
        if len(outs) == 2:
            print('real expansion as written :', rsview.show(unsplit(outs[0] or []))[:1500])
            print('real expansion canonical  :', rsview.show(unsplit(outs[1] or []))[:1500])
            if json.dumps(outs[0]) == json.dumps(case.get('pred')) and json.dumps(outs[1]) == json.dumps(case['twin'].get('pred')) \
                    and json.dumps(outs[0]) != json.dumps(outs[1]):
                print(f'REPRODUCED: both equal the predicted expansions and differ from each other: `{meta.get("role")}`')
                return 1
        print('NOT REPRODUCED')
        return 0
    for r in recs:
        if r.get('panic'):
            print('real macro: PANIC')
            if case.get('kind') == 'panic':
                print('REPRODUCED')
                return 1
        if 'output' in r:
            got = rec_split(r['output'])
            print('real expansion:', rsview.show(unsplit(got))[:2000])
            if json.dumps(got) == json.dumps(case.get('pred')):
                print(f'REPRODUCED: identical to the predicted expansion on which `{meta.get("role")}` fails: {meta.get("detail", "")[:500]}')
                return 1
    print('NOT REPRODUCED')
    return 0


def concretize_front(prog, pr, model):
    from . import front
    info = pr.notes['input']
    alpha, labels = front.attr_alphabet()
    toks = []
    if info.get('items'):
        ex2 = sexec.Exec(prog, [])
        ex2.decisions = dict(pr.decisions)
        ex2.decide = lambda n, label: 0
        ex2.assume = lambda c: None
        cells = front.attr_item_cells(info['target'], info['items'], info['head'], info['reduced'])
        front.expand_segments(ex2, cells, 10 ** 6)
        toks = [t for t in cells if isinstance(t, tuple)]
    else:
        for i in range(info['n']):
            k = pr.decisions.get(f'a[{i}]', 0)
            if k == 0:
                break
            toks.append(alpha[k - 1])
    target = info['target']
    item = drive.fixed_item(prog, target)
    P = synprint.Printer(name_of=namer(model), resolve=lambda s: s)
    item_toks = drive.item_tokens(prog, target, item, P)
    return dict(macro=info['variant'], attr_src=front.tokens_source(toks), item_src=to_source(item_toks), model=model, attr=None, item=item,
                item_flat=rsview.split_flat(item_toks), printer=P)


def determinism_check(cases, name='s_determinism'):
    """C20 replay: the same (attr, item) pairs expanded by the real macro (a) twice within one compiler process,
    (b) in a second, fresh compiler process, (c) in reversed order in a third process. Every recorded output of one
    (macro, attr, input) key must be identical.  -> (keys_compared, expansions, diffs[list of dict])"""
    import itertools
    good = [c for c in cases if c and 'error' not in c]
    if not good:
        return 0, 0, []
    orders = [good + good, list(good), list(reversed(good))]
    outputs = {}
    n_exp = 0
    for k, order in enumerate(orders):
        recs, log, dt = expand_batch(order, f'{name}_{k}')
        # touch the client source so that the next process really re-expands (fresh rustc, fresh hash seeds)
        for r in recs:
            n_exp += 1
            key = json.dumps([rec_split(r['attr']), rec_split(r['input'])])
            outputs.setdefault(key, []).append((k, json.dumps(rec_split(r['output'])) if 'output' in r else 'PANIC'))
    diffs = []
    for key, outs in outputs.items():
        distinct = sorted({o for _, o in outs})
        if len(distinct) > 1:
            a, i = json.loads(key)
            diffs.append(dict(attr=rsview.show(unsplit(a)), input=rsview.show(unsplit(i))[:300], n_distinct_outputs=len(distinct),
                              runs=[k for k, _ in outs],
                              first=rsview.show(unsplit(json.loads(distinct[0])))[:600] if distinct[0] != 'PANIC' else 'PANIC',
                              second=rsview.show(unsplit(json.loads(distinct[1])))[:600] if distinct[1] != 'PANIC' else 'PANIC'))
    return len(outputs), n_exp, diffs


def concretize_front_item(prog, pr, model):
    """rebuild the token list with the path's decisions, defaults (first alternative) elsewhere; END (alternative 0) ends the list"""
    from . import front
    info = pr.notes['input']
    ex2 = sexec.Exec(prog, [])
    ex2.decisions = dict(pr.decisions)
    ex2.decide = lambda n, label: 0
    ex2.assume = lambda c: None
    if info.get('layout'):
        cells = front.layout_cells(info['layout'])
        front.expand_segments(ex2, cells, 10 ** 6)
    else:
        cells = front.sym_item_tokens('t', info['n'])
    nm0 = namer(model)

    def nm(term):
        return term if isinstance(term, str) else nm0(term)
    toks = []
    for i in range(len(cells) if info.get('layout') else info['n']):
        t = ex2.force_slot(cells, i)
        if front.tk_is_end(t):
            break
        toks += front.tk_flat(t, lambda s_: ex2.force(s_), nm) if isinstance(t, Obj) else [front.view_tok(t)]
    what = info['what']
    if what == 'mod':
        item_toks = [('I', 'mod', 'input'), ('I', 'm', 'input'), ('G', '{', toks, 'input')]
    elif what == 'impl':
        item_toks = [('I', 'impl', 'input'), ('I', 'FooImpl', 'input'), ('I', 'for', 'input'), ('I', 'MyImpl', 'input'), ('G', '{', toks, 'input')]
    else:
        item_toks = toks
    P = synprint.Printer(name_of=namer(model), resolve=lambda s_: ex2.force(s_))
    P.known = nm
    attr_src = 'Foo' if what in ('mod', 'fn') else ''
    return dict(macro='entrait', attr_src=attr_src, item_src=to_source(item_toks), model=model, attr=None, item=None,
                item_flat=rsview.split_flat(item_toks), printer=P)
