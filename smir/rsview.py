"""A structural view of an expansion: flat tokens -> items (fn / trait / impl / mod / use / other).
Works on the executor's predicted tokens (identifier spellings may be solver terms, tokens carry an
origin tag) and on tokens recorded from the real macro alike, so the same oracle code judges both."""

import z3
from .values import Unsupported

JOIN = {'::', '->', '=>', '..', '...', '..=', '&&', '||', '==', '!=', '<=', '>=', '+=', '-=', '*=', '/=', '%=', '^=', '&=', '|='}


def from_recorded(js):
    """recorder JSON -> view tokens ('I',name,origin) ('P',text,origin) ('LT',name,origin) ('L',text,origin) ('G',d,[..],origin)"""
    out = []
    i = 0
    n = len(js)
    while i < n:
        t = js[i]
        k = t[0]
        if k == 'I':
            out.append(('I', t[1], '?'))
        elif k == 'L':
            out.append(('L', t[1], '?'))
        elif k == 'G':
            out.append(('G', t[1], from_recorded(t[2]), '?'))
        elif k == 'P':
            if t[1] == "'" and i + 1 < n and js[i + 1][0] == 'I':
                out.append(('LT', js[i + 1][1], '?'))
                i += 2
                continue
            text = t[1]
            j = i
            while js[j][2] == 1 and j + 1 < n and js[j + 1][0] == 'P' and (text + js[j + 1][1]) in JOIN | {'..', '...'}:
                text += js[j + 1][1]
                j += 1
            out.append(('P', text, '?'))
            i = j + 1
            continue
        i += 1
    return out


def split_flat(toks):
    """view tokens -> fully split comparison form [('I',s)|('P',ch)|('L',s)|('G',d,[..])]"""
    out = []
    for t in toks:
        k = t[0]
        if k == 'I':
            out.append(('I', t[1]))
        elif k == 'P':
            for ch in t[1]:
                out.append(('P', ch))
        elif k == 'LT':
            out.append(('P', "'"))
            out.append(('I', t[1]))
        elif k == 'L':
            out.append(('L', t[1]))
        elif k == 'G':
            out.append(('G', t[1], split_flat(t[2])))
    return out


def show(toks, maxlen=None):
    close = {'(': ')', '{': '}', '[': ']', '': ''}
    parts = []
    for t in toks:
        k = t[0]
        if k == 'G':
            parts.append(t[1] + ' ' + show(t[2]) + ' ' + close[t[1]])
        elif k == 'LT':
            parts.append("'" + str(t[1]))
        else:
            parts.append(str(t[1]))
    s = ' '.join(p for p in parts if p != '')
    return s if maxlen is None else s[:maxlen]


def is_i(t, name=None):
    return t[0] == 'I' and (name is None or (isinstance(t[1], str) and t[1] == name))


def is_p(t, text=None):
    return t[0] == 'P' and (text is None or t[1] == text)


def name_eq(a, b):
    """identifier spelling equality: python bool or solver term"""
    if isinstance(a, str) and isinstance(b, str):
        return a == b
    sa = a if isinstance(a, z3.ExprRef) else z3.StringVal(a)
    sb = b if isinstance(b, z3.ExprRef) else z3.StringVal(b)
    return sa == sb


def tok_eq(a, b):
    """structural token equality ignoring origin; returns bool or solver term (conjunction of name equalities)"""
    if a[0] != b[0]:
        return False
    k = a[0]
    if k in ('I', 'LT'):
        return name_eq(a[1], b[1])
    if k in ('P', 'L', 'ATOM'):
        return a[1] == b[1]
    if k == 'G':
        if a[1] != b[1]:
            return False
        return toks_eq(a[2], b[2])
    return False


def toks_eq(xs, ys):
    if len(xs) != len(ys):
        return False
    conds = []
    for a, b in zip(xs, ys):
        r = tok_eq(a, b)
        if r is False:
            return False
        if r is not True:
            conds.append(r)
    if not conds:
        return True
    return z3.And(conds) if len(conds) > 1 else conds[0]


def split_top(toks, sep, angle=True):
    """split a token list at top-level punct `sep` (angle-bracket aware)"""
    out, cur, depth = [], [], 0
    for t in toks:
        if t[0] == 'P':
            if angle and t[1] == '<':
                depth += 1
            elif angle and t[1] == '>':
                depth -= 1
            elif t[1] == sep and depth == 0:
                out.append(cur)
                cur = []
                continue
        cur.append(t)
    if cur or out:
        out.append(cur)
    return out


class Param:
    def __init__(self):
        self.attrs = []
        self.receiver = None   # None | dict(ref=bool, lifetime=tok|None, mut=bool)
        self.pat = []
        self.ty = []

    def name(self):
        """the single identifier of a plain-binding parameter, else None"""
        p = [t for t in self.pat]
        if len(p) == 1 and p[0][0] == 'I':
            return p[0][1]
        return None


class Item:
    def __init__(self, kind):
        self.kind = kind
        self.attrs = []        # list of token lists (contents of #[..])
        self.vis = []
        self.tokens = []       # all tokens of the item (incl. attrs)
        self.quals = []
        self.name = None
        self.generics = []     # list of generic-parameter token lists
        self.params = []
        self.ret = None        # token list after -> , or None
        self.where = []        # list of predicate token lists
        self.body = None       # token list inside braces, or None for `;`
        self.items = []        # trait / impl / mod members
        self.supertraits = []  # list of bound token lists
        self.trait_ref = None
        self.self_ty = []
        self.unsafety = False
        self.auto = False
        self.has_colon = False


def parse_generics(toks, i):
    """toks[i] == '<': returns (list of param token lists, index after matching '>')"""
    assert is_p(toks[i], '<')
    depth = 0
    j = i
    while j < len(toks):
        t = toks[j]
        if t[0] == 'P':
            if t[1] == '<':
                depth += 1
            elif t[1] == '>':
                depth -= 1
                if depth == 0:
                    break
        j += 1
    inner = toks[i + 1:j]
    return [p for p in split_top(inner, ',') if p], j + 1


def parse_params(group_toks):
    ps = []
    for part in split_top(group_toks, ','):
        if not part:
            continue
        p = Param()
        k = 0
        while k < len(part) and is_p(part[k], '#'):
            p.attrs.append(part[k + 1][2])
            k += 2
        rest = part[k:]
        # receiver forms: self | mut self | & self | & 'a self | & mut self | & 'a mut self  (optionally `: T`)
        r = list(rest)
        rec = dict(ref=False, lifetime=None, mut=False)
        idx = 0
        if idx < len(r) and is_p(r[idx], '&'):
            rec['ref'] = True
            idx += 1
            if idx < len(r) and r[idx][0] == 'LT':
                rec['lifetime'] = r[idx]
                idx += 1
        if idx < len(r) and is_i(r[idx], 'mut'):
            rec['mut'] = True
            idx += 1
        if idx < len(r) and is_i(r[idx], 'self'):
            p.receiver = rec
            p.ty = r[idx + 2:] if idx + 1 < len(r) and is_p(r[idx + 1], ':') else []
            ps.append(p)
            continue
        # pat : ty  (first top-level ':' that is not '::')
        depth = 0
        cut = None
        for q, t in enumerate(rest):
            if t[0] == 'P':
                if t[1] == '<':
                    depth += 1
                elif t[1] == '>':
                    depth -= 1
                elif t[1] == ':' and depth == 0:
                    cut = q
                    break
        if cut is None:
            p.pat = rest
        else:
            p.pat = rest[:cut]
            p.ty = rest[cut + 1:]
        ps.append(p)
    return ps


def parse_where(toks):
    return [p for p in split_top(toks, ',') if p]


FN_QUALS = ('const', 'async', 'unsafe', 'extern')


def parse_items(toks):
    items = []
    i = 0
    n = len(toks)
    while i < n:
        start = i
        it_attrs = []
        while i + 1 < n and is_p(toks[i], '#') and toks[i + 1][0] == 'G' and toks[i + 1][1] == '[':
            it_attrs.append(toks[i + 1][2])
            i += 2
        vis = []
        while i < n and toks[i][0] == 'ATOM':
            # an input node the macro passed through without looking (visibility / attribute list): kept as one atom
            vis.append(toks[i])
            i += 1
        if i < n and is_i(toks[i], 'pub'):
            vis.append(toks[i])
            i += 1
            if i < n and toks[i][0] == 'G' and toks[i][1] == '(':
                vis.append(toks[i])
                i += 1
        if i >= n:
            it = Item('other')
            it.attrs = it_attrs
            it.vis = vis
            it.tokens = toks[start:i]
            items.append(it)
            break
        quals = []
        j = i
        while j < n and toks[j][0] == 'I' and isinstance(toks[j][1], str) and toks[j][1] in FN_QUALS:
            quals.append(toks[j][1])
            j += 1
            if quals[-1] == 'extern' and j < n and toks[j][0] == 'L':
                quals.append(toks[j][1])
                j += 1
        if j < n and is_i(toks[j], 'fn'):
            it = Item('fn')
            it.quals = quals
            j += 1
            it.name = toks[j]
            j += 1
            if j < n and is_p(toks[j], '<'):
                it.generics, j = parse_generics(toks, j)
            assert toks[j][0] == 'G' and toks[j][1] == '(', 'fn parameter list expected'
            it.params = parse_params(toks[j][2])
            j += 1
            # return type / where / body
            k = j
            while k < n and not (toks[k][0] == 'G' and toks[k][1] == '{') and not is_p(toks[k], ';'):
                k += 1
            mid = toks[j:k]
            widx = None
            depth = 0
            for q, t in enumerate(mid):
                if t[0] == 'P' and t[1] == '<':
                    depth += 1
                elif t[0] == 'P' and t[1] == '>':
                    depth -= 1
                elif is_i(t, 'where') and depth == 0:
                    widx = q
                    break
            retpart = mid if widx is None else mid[:widx]
            if retpart and is_p(retpart[0], '->'):
                it.ret = retpart[1:]
            elif retpart:
                raise Unsupported('rsview: unexpected tokens after fn parameters: ' + show(retpart, 80))
            if widx is not None:
                it.where = parse_where(mid[widx + 1:])
            if k < n and toks[k][0] == 'G':
                it.body = toks[k][2]
            k += 1
            # trailing semicolons after a body belong to the item as written (entrait keeps them)
            it.attrs, it.vis = it_attrs, vis
            it.tokens = toks[start:k]
            items.append(it)
            i = k
            continue
        # trait
        k = i
        unsafety = auto = False
        if k < n and is_i(toks[k], 'unsafe'):
            unsafety = True
            k += 1
        if k < n and is_i(toks[k], 'auto'):
            auto = True
            k += 1
        if k < n and is_i(toks[k], 'trait'):
            it = Item('trait')
            it.unsafety, it.auto = unsafety, auto
            k += 1
            it.name = toks[k]
            k += 1
            if k < n and is_p(toks[k], '<'):
                it.generics, k = parse_generics(toks, k)
            m = k
            while not (toks[m][0] == 'G' and toks[m][1] == '{'):
                m += 1
            mid = toks[k:m]
            widx = next((q for q, t in enumerate(mid) if is_i(t, 'where')), None)
            sup = mid if widx is None else mid[:widx]
            if sup and is_p(sup[0], ':'):
                it.has_colon = True
                it.supertraits = [b for b in split_top(sup[1:], '+') if b]
            if widx is not None:
                it.where = parse_where(mid[widx + 1:])
            it.body = toks[m][2]
            it.items = parse_items(toks[m][2])
            it.attrs, it.vis = it_attrs, vis
            it.tokens = toks[start:m + 1]
            items.append(it)
            i = m + 1
            continue
        if k < n and is_i(toks[k], 'impl'):
            it = Item('impl')
            it.unsafety = unsafety
            k += 1
            if k < n and is_p(toks[k], '<'):
                it.generics, k = parse_generics(toks, k)
            m = k
            while not (toks[m][0] == 'G' and toks[m][1] == '{'):
                m += 1
            mid = toks[k:m]
            widx = None
            depth = 0
            for q, t in enumerate(mid):
                if t[0] == 'P' and t[1] == '<':
                    depth += 1
                elif t[0] == 'P' and t[1] == '>':
                    depth -= 1
                elif is_i(t, 'where') and depth == 0:
                    widx = q
                    break
            head = mid if widx is None else mid[:widx]
            fidx = None
            depth = 0
            for q, t in enumerate(head):
                if t[0] == 'P' and t[1] == '<':
                    depth += 1
                elif t[0] == 'P' and t[1] == '>':
                    depth -= 1
                elif is_i(t, 'for') and depth == 0:
                    fidx = q
                    break
            if fidx is None:
                it.self_ty = head
            else:
                it.trait_ref = head[:fidx]
                it.self_ty = head[fidx + 1:]
            if widx is not None:
                it.where = parse_where(mid[widx + 1:])
            it.body = toks[m][2]
            it.items = parse_items(toks[m][2])
            it.attrs, it.vis = it_attrs, vis
            it.tokens = toks[start:m + 1]
            items.append(it)
            i = m + 1
            continue
        if i < n and is_i(toks[i], 'mod') and i + 2 < n and toks[i + 2][0] == 'G':
            it = Item('mod')
            it.name = toks[i + 1]
            it.body = toks[i + 2][2]
            it.items = parse_items(toks[i + 2][2])
            it.attrs, it.vis = it_attrs, vis
            it.tokens = toks[start:i + 3]
            items.append(it)
            i += 3
            continue
        if i < n and is_i(toks[i], 'type'):
            it = Item('type')
            k = i
            while k < n and not is_p(toks[k], ';'):
                k += 1
            it.name = toks[i + 1]
            it.attrs, it.vis = it_attrs, vis
            it.tokens = toks[start:k + 1]
            items.append(it)
            i = k + 1
            continue
        # anything else: up to and including the first `;` or brace group
        it = Item('use' if is_i(toks[i], 'use') else 'other')
        k = i
        while k < n:
            if is_p(toks[k], ';') or (toks[k][0] == 'G' and toks[k][1] == '{'):
                break
            k += 1
        it.attrs, it.vis = it_attrs, vis
        it.tokens = toks[start:k + 1]
        items.append(it)
        i = k + 1
        # stray semicolons
        while i < n and is_p(toks[i], ';'):
            items[-1].tokens = items[-1].tokens + [toks[i]]
            i += 1
    return items
