"""Slices -> parallel path-complete exploration -> obligations discharged by z3 -> failures replayed against
the real macro (predicted == recorded, judged by the same oracle)."""

import json, multiprocessing, os, re, time, traceback
import z3
from .values import *
from . import setup as ssetup, exec as sexec, inputs, drive, replay, rsview, spec

_PROG = {}


def get_prog(mir_path, repo):
    key = (mir_path, repo)
    if key not in _PROG:
        _PROG[key] = ssetup.load_program(repo, mir_text=open(mir_path).read())
    return _PROG[key]


def make_setup(prog, sl):
    mode = sl['mode']
    B = inputs.Bounds(**sl.get('bounds', {}))
    if mode == 'fn':
        return drive.fn_mode(prog, B, variant=sl.get('variant', 'entrait'), opts_only=sl.get('opts_only'), fixed=sl.get('fixed', ()),
                             name=sl.get('fn_name', 'foo'), trait_name=sl.get('trait_name', 'Foo'), meta=sl.get('meta', False))
    if mode == 'mod':
        return drive.mod_mode(prog, B, variant=sl.get('variant', 'entrait'), opts_only=sl.get('opts_only'), fixed=sl.get('fixed', ()),
                              max_items=sl.get('max_items', 2), meta=sl.get('meta', False))
    if mode == 'trait':
        return drive.trait_mode(prog, B, variant=sl.get('variant', 'entrait'), sl=sl)
    if mode == 'impl':
        return drive.impl_mode(prog, B, sl=sl)
    if mode == 'front':
        return drive.front_mode(prog, sl)
    if mode == 'front-item':
        return drive.front_item_mode(prog, sl)
    raise ValueError(mode)


def bool_consts(f):
    out = {}

    def walk(e):
        if z3.is_const(e) and e.decl().kind() == z3.Z3_OP_UNINTERPRETED and z3.is_bool(e):
            out[str(e)] = e
        for c in e.children():
            walk(c)
    walk(f)
    return list(out.values())


def model_sig(model, consts):
    parts = []
    for c in sorted(consts, key=str):
        v = model.eval(c, model_completion=False)
        if z3.is_true(v) or z3.is_false(v):
            parts.append(f'{str(c).split(":")[-1].split(".")[-1]}={"true" if z3.is_true(v) else "false"}')
    return ','.join(parts)


def run_slice(args):
    """worker: explores one slice; returns a picklable summary"""
    mir_path, repo, sl, props, max_paths, time_budget = args
    t0 = time.time()
    res = dict(name=sl['name'], mode=sl['mode'], paths=0, kinds={}, obligations=0, queries=0, path_queries=0, solver_time=0.0,
               failures={}, unsupported={}, panics={}, bodies=set(), models=set(), truncated=False, steps=0, errs={},
               samples=[], impure=[], impure_cases=[], wall=0.0, error=None, bounds=sl.get('bounds', {}))
    res['validate'] = []
    import random
    rnd = random.Random(sl.get('seed', 1))
    try:
        prog = get_prog(mir_path, repo)
        prog.solver_timeout_ms = sl.get('solver_timeout_ms', 10000)
        st = make_setup(prog, sl)
        prog.restrict = [(re.compile(rx), k, n) for rx, k, n in sl.get('restrict', ())]
        prog.strict_impure = props is None or 'C20' in props   # only C20 treats hash-order iteration as a dead end
        for pr in sexec.explore(prog, None, st, max_paths=max_paths, time_budget=time_budget):
            if pr.kind == 'truncated':
                res['truncated'] = True
                continue
            res['paths'] += 1
            res['kinds'][pr.kind] = res['kinds'].get(pr.kind, 0) + 1
            res['steps'] += pr.steps
            res['path_queries'] += pr.queries
            res['solver_time'] += pr.solver_time
            res['bodies'] |= pr.bodies
            res['models'] |= pr.models
            if pr.notes.get('impure'):
                res['impure'] += pr.notes['impure']
            if pr.kind == 'unsupported':
                k = str(pr.error)[:300]
                res['unsupported'][k] = res['unsupported'].get(k, 0) + 1
                if pr.notes.get('impure') and len(res['impure_cases']) < 6:
                    # the input that drives the macro into the impure primitive: handed to the determinism replay (C20)
                    c_ = concretize_case(prog, pr, None)
                    if c_ and 'error' not in c_:
                        res['impure_cases'].append(c_)
                continue
            if pr.kind == 'infeasible':
                continue
            if pr.kind == 'panic':
                k = f'{pr.error.site}: {pr.error.msg}'[:200]
                ent = res['panics'].setdefault(k, dict(count=0, case=None, where=getattr(pr.error, 'where', [])[:4]))
                ent['count'] += 1
                if ent['case'] is None:
                    ent['case'] = concretize_case(prog, pr, None)
                continue
            if pr.kind == 'ok' and isinstance(pr.value, Obj) and pr.value.ty == 'Result' and pr.value.variant == 'Err':
                m = pr.value.fields[0].fields[1]
                res['errs'][str(m)[:80]] = res['errs'].get(str(m)[:80], 0) + 1
            O = pr.notes.get('obligations')
            if O is None:
                continue
            items = [(i,) + tuple(it) for i, it in enumerate(O.items) if props is None or it[0] in props]
            res['obligations'] += len(items)
            solver = None
            for o_idx, prop, name, f, detail in items:
                if f is True:
                    continue
                models = []
                if f is False:
                    models = [None]
                elif isinstance(f, z3.ExprRef):
                    if solver is None:
                        solver = z3.Solver()
                        solver.set('timeout', prog.solver_timeout_ms)
                        for c in pr.pc:
                            solver.add(c)
                    t = time.time()
                    solver.push()
                    solver.add(z3.Not(f))
                    consts = bool_consts(f)
                    for _ in range(8):
                        r = solver.check()
                        res['queries'] += 1
                        if r == z3.unknown:
                            res['unsupported']['solver timeout on obligation ' + name] = 1
                            break
                        if r != z3.sat:
                            break
                        m = solver.model()
                        models.append(m)
                        if not consts:
                            break
                        solver.add(z3.Or([c != m.eval(c, model_completion=True) for c in consts]))
                    solver.pop()
                    res['solver_time'] += time.time() - t
                else:
                    models = [None]
                for m in models:
                    cls = spec.classify_failure(prop, name, pr, m, o_idx)
                    # positional prefixes (m0: / fn1: / param2:) are not part of the role of a failing input
                    rname = re.sub(r'(?:^|(?<=:))(?:m|fn|param)\d*:', '', name)
                    role = f'{prop}:{rname}' + (f'/{cls}' if cls else '')
                    ent = res['failures'].setdefault(role, dict(prop=prop, name=name, count=0, detail=detail, case=None))
                    ent['count'] += 1
                    if ent['case'] is None:
                        ent['case'] = concretize_case(prog, pr, m)
            # reservoir sample of explored paths for translator validation against the real macro
            nval = sl.get('validate', 6)
            if nval and not pr.notes.get('skip_validation'):
                seen_ok = res['kinds'].get('ok', 0)
                if len(res['validate']) < nval:
                    res['validate'].append(concretize_case(prog, pr, None))
                else:
                    j = rnd.randrange(seen_ok)
                    if j < nval:
                        res['validate'][j] = concretize_case(prog, pr, None)
            if len(res['samples']) < 3 and pr.kind == 'ok':
                try:
                    c = concretize_case(prog, pr, None)
                    res['samples'].append(dict(attr=c['attr_src'], item=c['item_src'][:300], decisions=len(pr.decisions),
                                               path_condition_terms=len(pr.pc), obligations=len(O.items)))
                except Exception:
                    pass
    except Exception as e:
        res['error'] = f'{type(e).__name__}: {e}\n' + traceback.format_exc()[-1500:]
    res['wall'] = time.time() - t0
    res['bodies'] = sorted(res['bodies'])
    res['models'] = sorted(res['models'])
    return res


def concretize_case(prog, pr, model):
    try:
        conc = replay.concretize(prog, pr, model=model)
        pred = replay.predicted_flat(pr, conc)
        json.dumps([conc['item_flat'], pred])   # must be plain data (no solver terms left)
        case = dict(macro=conc['macro'], attr_src=conc['attr_src'], item_src=conc['item_src'], item_flat=conc['item_flat'], pred=pred,
                    kind=pr.kind)
        if 'twin_attr_src' in conc and model is not None:
            pred2 = replay.predicted_flat(pr, conc, pr.notes['meta_out2'])
            json.dumps(pred2)
            case['twin'] = dict(macro='entrait', attr_src=conc['twin_attr_src'], item_src=conc['item_src'], item_flat=conc['item_flat'],
                                pred=pred2, kind='ok')
        return case
    except Exception as e:
        return dict(error=f'{type(e).__name__}: {e}')


def run_slices(mir_path, repo, slices, props, max_paths, time_budget, procs=16):
    args = [(mir_path, repo, sl, props, sl.get('max_paths', max_paths), sl.get('time_budget', time_budget)) for sl in slices]
    if procs <= 1 or len(args) == 1:
        return [run_slice(a) for a in args]
    with multiprocessing.get_context('fork').Pool(min(procs, len(args))) as pool:
        return pool.map(run_slice, args, chunksize=1)


def replay_cases(cases, name):
    """cases: list of dicts from concretize_case. Expands all with the real macro and compares predicted with recorded.
    -> list of (status, info): status in reproduced | mismatch | norecord | panic-reproduced | error"""
    twins = [(i, c['twin']) for i, c in enumerate(cases) if c and c.get('twin')]
    if twins:
        # metamorphic counterexamples: the invocation as written AND its canonical spelling must both expand as predicted
        n = len(cases)
        out, info = replay_cases(list(cases) + [dict(t, twin=None) for _, t in twins], name)
        for k, (i, _) in enumerate(twins):
            if out[i][0] == 'reproduced' and out[n + k][0] != 'reproduced':
                out[i] = ('mismatch', dict(twin=out[n + k][1]))
        return out[:n], info
    good = [c for c in cases if c and 'error' not in c]
    recs, log, dt = replay.expand_batch(good, name)
    by_input = {}
    for r in recs:
        by_input.setdefault(json.dumps(replay.rec_split(r['input'])), []).append(r)
    out = []
    gi = 0
    in_order = len(recs) == len(good)   # rustc expands the invocations of a crate in source order
    for c in cases:
        if not c or 'error' in c:
            out.append(('error', (c or {}).get('error', 'no case')))
            continue
        cands = by_input.get(json.dumps(c['item_flat']), [])
        if in_order:
            r = recs[gi]
            gi += 1
            if c['item_flat'] and json.dumps(replay.rec_split(r['input'])) == json.dumps(c['item_flat']):
                cands = [r]
        if not cands:
            out.append(('norecord', 'the real macro was not invoked on this input (client did not parse?)'))
            continue
        if c['kind'] == 'panic':
            out.append(('panic-reproduced', 'custom attribute panicked') if any(r.get('panic') for r in cands)
                       else ('mismatch', 'predicted a panic, the real macro did not panic'))
            continue
        ok = any('output' in r and json.dumps(replay.rec_split(r['output'])) == json.dumps(c['pred']) for r in cands)
        if ok:
            out.append(('reproduced', 'real expansion equals the predicted one token for token'))
        else:
            r = cands[0]
            out.append(('mismatch', dict(predicted=rsview.show(replay.unsplit(c['pred'] or []))[:1200],
                                         recorded=rsview.show(replay.unsplit(replay.rec_split(r['output'])))[:1200] if 'output' in r else 'PANIC')))
    # a case without a record: one unparsable item (token slices produce them) makes rustc give up on the whole client crate, so
    # retry those cases one crate each; a case that rustc then still does not hand to the macro is not Rust and says nothing about
    # the translator ('unparsable', not counted); a record whose input differs from the printed input is a genuine mismatch
    retry = [i for i, (st_, _) in enumerate(out) if st_ == 'norecord']
    if retry and len(cases) > 8:
        # chunks of 8 first (a clean chunk settles 8 cases with one compiler run), singles inside a chunk that still has gaps
        for j in range(0, len(retry), 8):
            idx = retry[j:j + 8]
            sub, _ = replay_cases([cases[i] for i in idx], name + '_chunk')
            for i, r_ in zip(idx, sub):
                out[i] = r_
    elif retry and len(cases) > 1:
        for i in retry:
            sub, _ = replay_cases([cases[i]], name + '_one')
            out[i] = sub[0]
    elif retry and len(cases) == 1:
        out[0] = ('unparsable', 'rustc does not hand this input to the macro') if not recs else \
            ('mismatch', dict(predicted_input=rsview.show(replay.unsplit(cases[0]['item_flat']))[:600],
                              recorded_input=rsview.show(replay.unsplit(replay.rec_split(recs[0]['input'])))[:600]))
    return out, dict(client_wall_s=round(dt, 1), records=len(recs))
