"""Model of the parts of syn that are *data*: token spellings, how AST nodes print
(quote::ToTokens for syn types), the pattern visitor, and the eight parse_quote! templates
entrait uses.  Validated on every run against the real syn/quote/proc-macro2 by comparing
predicted with recorded expansions (translator validation)."""

import re
import z3
from .values import *

LAYOUT = None  # set by Program setup

TOKENS = {
    'Comma': ',', 'Plus': '+', 'PathSep': '::', 'Colon': ':', 'Semi': ';', 'Eq': '=', 'Lt': '<', 'Gt': '>', 'And': '&',
    'Pound': '#', 'Dot': '.', 'Question': '?', 'RArrow': '->', 'Underscore': '_', 'Star': '*', 'Not': '!', 'At': '@',
    'Or': '|', 'FatArrow': '=>', 'DotDot': '..', 'Minus': '-', 'Dollar': '$', 'Tilde': '~',
    'SelfValue': 'self', 'SelfType': 'Self', 'Where': 'where', 'Pub': 'pub', 'Super': 'super', 'Crate': 'crate', 'Fn': 'fn',
    'Async': 'async', 'Await': 'await', 'Unsafe': 'unsafe', 'Const': 'const', 'Mut': 'mut', 'Ref': 'ref', 'Dyn': 'dyn',
    'Impl': 'impl', 'Trait': 'trait', 'Mod': 'mod', 'For': 'for', 'Use': 'use', 'Move': 'move', 'Extern': 'extern',
    'In': 'in', 'Type': 'type', 'Auto': 'auto', 'As': 'as', 'Static': 'static', 'Struct': 'struct', 'Enum': 'enum',
    'Let': 'let', 'Default': 'default', 'Box': 'box', 'Macro': 'macro', 'Match': 'match', 'Return': 'return',
}
KEYWORD_TOKENS = {k for k, v in TOKENS.items() if v[0].isalpha()}


def emit_token(name, out, origin):
    t = TOKENS[name]
    if t[0].isalpha() or t == '_':
        out.append(('I', t, origin))
    else:
        out.append(('P', t, origin))


def is_syn_node(v):
    if not isinstance(v, Obj):
        return False
    return v.ty in LAYOUT.syn_structs or v.ty in LAYOUT.syn_enums or v.ty in ('Lifetime', 'LitBool', 'Verbatim', 'Opaque')


def snapshot(v):
    """deep, immutable-by-convention copy of a node's current structure (Sym leaves shared)"""
    return clone_val(v)


# ---------------------------------------------------------------------------
# a tiny lexer for literal token text (quote!'s fallback and templates in tests)
# ---------------------------------------------------------------------------

def lex(src):
    toks = []
    i = 0
    n = len(src)
    while i < n:
        c = src[i]
        if c.isspace():
            i += 1
            continue
        if c.isalpha() or c == '_':
            j = i
            while j < n and (src[j].isalnum() or src[j] == '_'):
                j += 1
            toks.append(('I', src[i:j], 'macro'))
            i = j
            continue
        if c == "'":
            j = i + 1
            while j < n and (src[j].isalnum() or src[j] == '_'):
                j += 1
            toks.append(('LT', src[i + 1:j], 'macro'))
            i = j
            continue
        if c in '([{':
            raise Unsupported('lex: groups')
        m = re.match(r'(::|->|=>|&&|\|\||[-+*/%^!&|<>=@.,;:#$?~])', src[i:])
        if m:
            toks.append(('P', m.group(1), 'macro'))
            i += m.end()
            continue
        raise Unsupported('lex: ' + src[i:i + 10])
    return toks


# ---------------------------------------------------------------------------
# printing syn nodes to flat tokens (port of syn's ToTokens impls for the input alphabet)
# ---------------------------------------------------------------------------

class Printer:
    """flattens abstract tokens (incl. node tokens) to *view tokens*:
    ('I',name,origin) ('P',text,origin) ('LT',name,origin) ('L',text,origin) ('G',delim,[..],origin).
    `name_of(term)` concretises a symbolic spelling (identity keeps solver terms), `resolve(sym)` a lazy node."""

    def __init__(self, name_of=None, resolve=None):
        self.name_of = name_of or (lambda t: t)
        # resolve=None: an input node the macro never inspected prints as one atom ('ATOM', key): equal on both sides
        self._resolve = resolve
        self.resolve = resolve or (lambda s: s)
        self.known = None   # solver term -> concrete text learned on the path (front end)

    def nm(self, x):
        if isinstance(x, str):
            return x
        return self.name_of(x)

    # -- abstract token list -------------------------------------------------
    def flat(self, toks, out=None):
        out = [] if out is None else out
        for t in toks:
            k = t[0]
            if k == 'I':
                raw = len(t) > 3 and t[3]
                self.ident(out, t[1], raw, t[2] if len(t) > 2 else 'macro')
            elif k == 'P':
                self.punct(out, t[1], t[2] if len(t) > 2 else 'macro')
            elif k == 'LT':
                out.append(('LT', self.nm(t[1]), t[2] if len(t) > 2 else 'macro'))
            elif k == 'L':
                out.append(('L', t[1], t[2] if len(t) > 2 else 'input'))
            elif k == 'G':
                out.append(('G', t[1], self.flat(t[2]), t[3] if len(t) > 3 else 'macro'))
            elif k == 'N':
                self.node(t[2], out)
            elif k == 'RAW':
                out.extend(t[2])
            elif k == 'TKN':
                from . import front
                out.extend(front.tk_flat(t[1], self.resolve, self.known))
            elif k in ('PSYM', 'ATOM'):
                out.append(t)     # an undecided spelling / node: one atom, the same on the input and the output side
            elif k == 'COMPILE_ERROR':
                o = 'macro'
                self.punct(out, '::', o); self.ident(out, 'core', False, o); self.punct(out, '::', o)
                self.ident(out, 'compile_error', False, o); self.punct(out, '!', o)
                out.append(('G', '{', [('L', rust_str_lit(self.nm(t[1])) if isinstance(self.nm(t[1]), str) else ('SYMSTR', t[1]), o)], o))
            else:
                raise Unsupported('flat: token kind ' + str(k))
        return out

    def ident(self, out, name, raw=False, origin='input'):
        s = self.nm(name)
        if raw:
            s = ('r#' + s) if isinstance(s, str) else s
        out.append(('I', s, origin))

    def punct(self, out, text, origin='input'):
        if text in ('>>', '<<'):
            # quote! lexes `>>` in `AsRef<dyn X<T>>>` as one shift token; proc_macro hands out two joint `>`
            out.append(('P', text[0], origin))
            out.append(('P', text[0], origin))
            return
        out.append(('P', text, origin))

    def tok(self, out, name, origin='input'):
        t = TOKENS[name]
        if t[0].isalpha() or t == '_':
            out.append(('I', t, origin))
        else:
            out.append(('P', t, origin))

    def group(self, out, delim, inner, origin='input'):
        out.append(('G', delim, inner, origin))

    # -- nodes ------------------------------------------------------------------
    def node(self, v, out):
        if isinstance(v, Ptr):
            v = v.get()
        if isinstance(v, Sym):
            if self._resolve is None:
                out.append(('ATOM', v.key, 'input'))
                return
            v = self._resolve(v)
            if isinstance(v, Sym):
                out.append(('ATOM', v.key, 'input'))
                return
            return self.node(v, out)
        if isinstance(v, Ident):
            return self.ident(out, v.name, v.raw, v.origin)
        if isinstance(v, Tok):
            return self.tok(out, v.name, 'input')
        if isinstance(v, TS):
            return self.flat(v.toks, out)
        if isinstance(v, Punct):
            return self.punctuated(v, out)
        if isinstance(v, VecObj):
            for x in v.items:
                self.node(x, out)
            return
        if isinstance(v, bool):
            return self.ident(out, 'true' if v else 'false')
        if not isinstance(v, Obj):
            raise Unsupported('print: ' + type(v).__name__)
        if v.ty == 'Option':
            if v.variant == 'Some':
                self.node(v.fields[0], out)
            return
        if v.ty == 'Box':
            return self.node(v.fields[0], out)
        if v.ty == 'tuple':
            for x in v.fields:
                self.node(x, out)
            return
        meth = getattr(self, 'p_' + v.ty, None)
        if meth is None:
            raise Unsupported('print: no printer for syn node ' + v.ty)
        return meth(v, out)

    def punctuated(self, p, out, sep=None):
        if self.lazy(p, out):
            return
        items = p.items
        for i, x in enumerate(items):
            self.node(x, out)
            if i < len(items) - 1 or p.trailing:
                self.tok(out, sep or p.sep)

    def lazy(self, x, out):
        """atom mode: an uninspected input node prints as one atom"""
        if isinstance(x, Sym):
            out.append(('ATOM', x.key, 'input'))
            return True
        return False

    def attrs(self, v, out):
        a = v.f('attrs')
        if isinstance(a, Sym):
            a = self.resolve(a)
        if self.lazy(a, out):
            return
        for x in a.items:
            self.node(x, out)

    def opt(self, v, name, out):
        self.node(v.f(name), out)

    def g(self, v, name):
        x = v.f(name)
        if isinstance(x, Sym):
            x = self.resolve(x)
        return x

    # individual node types -------------------------------------------------------
    def p_Verbatim(self, v, out):
        self.flat(v.fields[0], out)

    def p_Opaque(self, v, out):
        out.extend(v.fields[1])

    def p_Lifetime(self, v, out):
        idn = v.fields[1]
        out.append(('LT', self.nm(idn.name), idn.origin))

    def p_LitBool(self, v, out):
        self.ident(out, 'true' if v.fields[0] else 'false', False, 'macro')

    def p_Attribute(self, v, out):
        self.punct(out, '#')
        st = self.g(v, 'style')
        if not isinstance(st, Sym) and st.variant == 'Inner':
            self.punct(out, '!')
        inner = []
        self.node(self.g(v, 'meta'), inner)
        self.group(out, '[', inner)

    def p_Meta(self, v, out):
        inner = v.fields[0]
        if isinstance(inner, Sym):
            inner = self.resolve(inner)
        if v.variant == 'Path':
            self.node(inner, out)
        else:
            self.node(inner, out)

    def p_MetaList(self, v, out):
        self.node(self.g(v, 'path'), out)
        d = self.g(v, 'delimiter')
        ch = {'Paren': '(', 'Brace': '{', 'Bracket': '['}[d.variant]
        self.group(out, ch, self.flat(self.g(v, 'tokens').toks))

    def p_MetaNameValue(self, v, out):
        self.node(self.g(v, 'path'), out)
        self.punct(out, '=')
        self.node(self.g(v, 'value'), out)

    def p_Visibility(self, v, out):
        if v.variant == 'Public':
            self.ident(out, 'pub')
        elif v.variant == 'Restricted':
            self.node(v.fields[0], out)

    def p_VisRestricted(self, v, out):
        self.ident(out, 'pub')
        inner = []
        self.opt(v, 'in_token', inner)
        self.node(self.g(v, 'path'), inner)
        self.group(out, '(', inner)

    def p_Path(self, v, out):
        self.opt(v, 'leading_colon', out)
        self.punctuated(self.g(v, 'segments'), out, 'PathSep')

    def p_PathSegment(self, v, out):
        self.node(self.g(v, 'ident'), out)
        self.node(self.g(v, 'arguments'), out)

    def p_PathArguments(self, v, out):
        if v.variant == 'None':
            return
        self.node(v.fields[0], out)

    def p_AngleBracketedGenericArguments(self, v, out):
        self.opt(v, 'colon2_token', out)
        self.punct(out, '<')
        self.punctuated(self.g(v, 'args'), out, 'Comma')
        self.punct(out, '>')

    def p_GenericArgument(self, v, out):
        self.node(v.fields[0], out)

    def p_Signature(self, v, out):
        for n in ('constness', 'asyncness', 'unsafety', 'abi'):
            self.opt(v, n, out)
        self.ident(out, 'fn')
        self.node(self.g(v, 'ident'), out)
        gen = self.g(v, 'generics')
        self.node(gen, out)
        inner = []
        self.punctuated(self.g(v, 'inputs'), inner, 'Comma')
        self.group(out, '(', inner)
        self.node(self.g(v, 'output'), out)
        if not isinstance(gen, Sym):
            self.node(self.g(gen, 'where_clause'), out)

    def p_Abi(self, v, out):
        self.ident(out, 'extern')
        self.opt(v, 'name', out)

    def p_LitStr(self, v, out):
        out.append(('L', v.fields[0], 'input'))

    def p_Generics(self, v, out):
        params = self.g(v, 'params')
        if self.lazy(params, out):
            return
        if not params.items:
            return
        self.punct(out, '<')
        items = [self.resolve(x) if isinstance(x, Sym) else x for x in params.items]
        if any(isinstance(x, Sym) for x in items):
            # atom mode with an uninspected parameter: keep declaration order (lifetimes-first reordering needs the kinds)
            for i, x in enumerate(items):
                self.node(x, out)
                if i < len(items) - 1:
                    self.punct(out, ',')
            self.punct(out, '>')
            return
        trailing_or_empty = True
        n = len(items)
        # lifetimes first
        for i, x in enumerate(items):
            if x.variant == 'Lifetime':
                self.node(x, out)
                has_punct = i < n - 1 or params.trailing
                if has_punct:
                    self.punct(out, ',')
                trailing_or_empty = has_punct
        for i, x in enumerate(items):
            if x.variant != 'Lifetime':
                if not trailing_or_empty:
                    self.punct(out, ',')
                    trailing_or_empty = True
                self.node(x, out)
                has_punct = i < n - 1 or params.trailing
                if has_punct:
                    self.punct(out, ',')
                trailing_or_empty = has_punct
        self.punct(out, '>')

    def p_GenericParam(self, v, out):
        self.node(v.fields[0], out)

    def p_TypeParam(self, v, out):
        self.attrs(v, out)
        self.node(self.g(v, 'ident'), out)
        b = self.g(v, 'bounds')
        if not self.lazy(b, out) and b.items:
            self.punct(out, ':')
            self.punctuated(b, out, 'Plus')
        d = self.g(v, 'default')
        if not self.lazy(d, out) and d.variant == 'Some':
            self.punct(out, '=')
            self.node(d.fields[0], out)

    def p_LifetimeParam(self, v, out):
        self.attrs(v, out)
        self.node(self.g(v, 'lifetime'), out)
        b = self.g(v, 'bounds')
        if b.items:
            self.punct(out, ':')
            self.punctuated(b, out, 'Plus')

    def p_ConstParam(self, v, out):
        self.attrs(v, out)
        self.ident(out, 'const')
        self.node(self.g(v, 'ident'), out)
        self.punct(out, ':')
        self.node(self.g(v, 'ty'), out)
        d = self.g(v, 'default')
        if d.variant == 'Some':
            self.punct(out, '=')
            self.node(d.fields[0], out)

    def p_WhereClause(self, v, out):
        p = self.g(v, 'predicates')
        if self.lazy(p, out):
            return
        if p.items:
            self.ident(out, 'where')
            self.punctuated(p, out, 'Comma')

    def p_WherePredicate(self, v, out):
        self.node(v.fields[0], out)

    def p_PredicateType(self, v, out):
        self.opt(v, 'lifetimes', out)
        self.node(self.g(v, 'bounded_ty'), out)
        self.punct(out, ':')
        self.punctuated(self.g(v, 'bounds'), out, 'Plus')

    def p_PredicateLifetime(self, v, out):
        self.node(self.g(v, 'lifetime'), out)
        self.punct(out, ':')
        self.punctuated(self.g(v, 'bounds'), out, 'Plus')

    def p_TypeParamBound(self, v, out):
        self.node(v.fields[0], out)

    def p_TraitBound(self, v, out):
        inner = []
        m = self.g(v, 'modifier')
        if m.variant == 'Maybe':
            self.punct(inner, '?')
        self.opt(v, 'lifetimes', inner)
        self.node(self.g(v, 'path'), inner)
        pt = self.g(v, 'paren_token')
        if pt.variant == 'Some':
            self.group(out, '(', inner)
        else:
            out.extend(inner)

    def p_FnArg(self, v, out):
        self.node(v.fields[0], out)

    def p_Receiver(self, v, out):
        self.attrs(v, out)
        r = self.g(v, 'reference')
        if not self.lazy(r, out) and r.variant == 'Some':
            tup = r.fields[0]
            self.punct(out, '&')
            self.node(tup.fields[1], out)
        self.opt(v, 'mutability', out)
        self.ident(out, 'self')
        ct = self.g(v, 'colon_token')
        if ct.variant == 'Some':
            self.punct(out, ':')
            self.node(self.g(v, 'ty'), out)

    def p_PatType(self, v, out):
        self.attrs(v, out)
        self.node(self.g(v, 'pat'), out)
        self.punct(out, ':')
        self.node(self.g(v, 'ty'), out)

    def p_Pat(self, v, out):
        self.node(v.fields[0], out)

    def p_PatIdent(self, v, out):
        self.attrs(v, out)
        self.opt(v, 'by_ref', out)
        self.opt(v, 'mutability', out)
        self.node(self.g(v, 'ident'), out)
        sp = self.g(v, 'subpat')
        if not self.lazy(sp, out) and sp.variant == 'Some':
            self.punct(out, '@')
            self.node(sp.fields[0].fields[1], out)

    def p_PatWild(self, v, out):
        self.attrs(v, out)
        self.ident(out, '_')

    def p_PatTuple(self, v, out):
        self.attrs(v, out)
        inner = []
        el = self.g(v, 'elems')
        self.punctuated(el, inner, 'Comma')
        if not isinstance(el, Sym) and len(el.items) == 1 and not el.trailing:
            x = el.items[0]
            x = self.resolve(x) if isinstance(x, Sym) else x
            if isinstance(x, Sym) or x.variant != 'Rest':
                self.punct(inner, ',')
        self.group(out, '(', inner)

    def p_PatTupleStruct(self, v, out):
        self.attrs(v, out)
        self.node(self.g(v, 'path'), out)
        inner = []
        self.punctuated(self.g(v, 'elems'), inner, 'Comma')
        self.group(out, '(', inner)

    def p_PatStruct(self, v, out):
        self.attrs(v, out)
        self.node(self.g(v, 'path'), out)
        inner = []
        f = self.g(v, 'fields')
        self.punctuated(f, inner, 'Comma')
        rest = self.g(v, 'rest')
        if rest.variant == 'Some':
            if f.items and not f.trailing:
                self.punct(inner, ',')
            self.punct(inner, '..')
        self.group(out, '{', inner)

    def p_FieldPat(self, v, out):
        self.attrs(v, out)
        ct = self.g(v, 'colon_token')
        if ct.variant == 'Some':
            self.node(self.g(v, 'member'), out)
            self.punct(out, ':')
        self.node(self.g(v, 'pat'), out)

    def p_Member(self, v, out):
        self.node(v.fields[0], out)

    def p_PatReference(self, v, out):
        self.attrs(v, out)
        self.punct(out, '&')
        self.opt(v, 'mutability', out)
        self.node(self.g(v, 'pat'), out)

    def p_PatParen(self, v, out):
        self.attrs(v, out)
        inner = []
        self.node(self.g(v, 'pat'), inner)
        self.group(out, '(', inner)

    def p_Type(self, v, out):
        if v.variant == 'Verbatim':
            return self.flat(v.fields[0].toks if isinstance(v.fields[0], TS) else v.fields[0], out)
        self.node(v.fields[0], out)

    def p_TypePath(self, v, out):
        q = self.g(v, 'qself')
        if q.variant == 'Some':
            raise Unsupported('print qself')
        self.node(self.g(v, 'path'), out)

    def p_TypeReference(self, v, out):
        self.punct(out, '&')
        self.opt(v, 'lifetime', out)
        self.opt(v, 'mutability', out)
        self.node(self.g(v, 'elem'), out)

    def p_TypeParen(self, v, out):
        inner = []
        self.node(self.g(v, 'elem'), inner)
        self.group(out, '(', inner)

    def p_TypeImplTrait(self, v, out):
        self.ident(out, 'impl')
        self.punctuated(self.g(v, 'bounds'), out, 'Plus')

    def p_TypeTuple(self, v, out):
        inner = []
        el = self.g(v, 'elems')
        self.punctuated(el, inner, 'Comma')
        if len(el.items) == 1 and not el.trailing:
            self.punct(inner, ',')
        self.group(out, '(', inner)

    def p_TypeArray(self, v, out):
        inner = []
        self.node(self.g(v, 'elem'), inner)
        self.punct(inner, ';')
        self.node(self.g(v, 'len'), inner)
        self.group(out, '[', inner)

    def p_TypeSlice(self, v, out):
        inner = []
        self.node(self.g(v, 'elem'), inner)
        self.group(out, '[', inner)

    def p_TypeTraitObject(self, v, out):
        self.opt(v, 'dyn_token', out)
        self.punctuated(self.g(v, 'bounds'), out, 'Plus')

    def p_TypeNever(self, v, out):
        self.punct(out, '!')

    def p_ReturnType(self, v, out):
        if v.variant == 'Type':
            self.punct(out, '->')
            self.node(v.fields[1], out)

    def p_TraitItem(self, v, out):
        self.node(v.fields[0], out)

    def p_ItemTrait(self, v, out):
        self.attrs(v, out)
        self.node(self.g(v, 'vis'), out)
        self.opt(v, 'unsafety', out)
        self.opt(v, 'auto_token', out)
        self.ident(out, 'trait')
        self.node(self.g(v, 'ident'), out)
        gen = self.g(v, 'generics')
        self.node(gen, out)
        sup = self.g(v, 'supertraits')
        if isinstance(sup, Sym):
            out.append(('ATOM', sup.key + '+colon', 'input'))
        elif sup.items:
            self.punct(out, ':')
            self.punctuated(sup, out, 'Plus')
        if not isinstance(gen, Sym):
            self.node(self.g(gen, 'where_clause'), out)
        inner = []
        items = self.g(v, 'items')
        if not self.lazy(items, inner):
            for it in items.items:
                self.node(it, inner)
        self.group(out, '{', inner)

    def p_TraitItemFn(self, v, out):
        self.attrs(v, out)
        self.node(self.g(v, 'sig'), out)
        d = self.g(v, 'default')
        if self.lazy(d, out):
            return
        if d.variant == 'Some':
            self.node(d.fields[0], out)
        else:
            self.punct(out, ';')


def add_origin(t, origin):
    if t[0] == 'G':
        return ('G', t[1], [add_origin(x, origin) for x in t[2]], origin)
    return t + (origin,)


def rust_str_lit(s):
    out = '"'
    for ch in s:
        if ch == '"':
            out += '\\"'
        elif ch == '\\':
            out += '\\\\'
        elif ch == '\n':
            out += '\\n'
        elif ch == '\t':
            out += '\\t'
        else:
            out += ch
    return out + '"'


# ---------------------------------------------------------------------------
# syn::visit_mut::visit_pat_mut (generated traversal): calls back for every PatIdent
# ---------------------------------------------------------------------------

def visit_pat_idents(ex, pat_ptr, cb):
    cont, idx = pat_ptr.cont, pat_ptr.idx
    v = ex.force_slot(cont, idx)
    if isinstance(v, Obj) and v.ty == 'Box':
        cont, idx = v.fields, 0
        v = ex.force_slot(cont, idx)
    assert v.ty == 'Pat', v.ty
    var = v.variant
    inner = ex.force_slot(v.fields, 0)
    if var == 'Ident':
        cb(Ptr(v.fields, 0))
        return
    if var in ('Wild', 'Rest', 'Lit', 'Path', 'Range', 'Const', 'Macro', 'Verbatim'):
        return

    def fld(name):
        return ex.force_slot(inner.fields, inner.names.index(name))

    if var in ('Tuple', 'TupleStruct', 'Slice'):
        el = fld('elems')
        for i in range(len(el.items)):
            visit_pat_idents(ex, Ptr(el.items, i), cb)
        return
    if var == 'Or':
        el = fld('cases')
        for i in range(len(el.items)):
            visit_pat_idents(ex, Ptr(el.items, i), cb)
        return
    if var == 'Struct':
        fs = fld('fields')
        for i in range(len(fs.items)):
            fp = ex.force_slot(fs.items, i)
            visit_pat_idents(ex, Ptr(fp.fields, fp.names.index('pat')), cb)
        return
    if var in ('Reference', 'Paren', 'Type'):
        visit_pat_idents(ex, Ptr(inner.fields, inner.names.index('pat')), cb)
        return
    raise Unsupported('visit_pat_mut over Pat::' + var)


# ---------------------------------------------------------------------------
# parse_quote! back end: the templates entrait applies it to
# ---------------------------------------------------------------------------

def parse_template(ex, target, toks):
    A = ex.prog.ast
    t = target
    toks = list(toks)

    def is_i(tok, name=None):
        return tok[0] == 'I' and (name is None or (isinstance(tok[1], str) and tok[1] == name))

    def is_p(tok, ch):
        return tok[0] == 'P' and tok[1] == ch

    if 'FnArg' in t:
        # __impl : <type tokens>
        if len(toks) >= 3 and is_i(toks[0]) and is_p(toks[1], ':'):
            idn = Ident(toks[0][1], CALL_SITE, toks[0][2] if len(toks[0]) > 2 else 'macro')
            return A.fn_arg_typed(A.pat_ident(idn), A.type_verbatim(toks[2:]))
        raise Unsupported('parse_quote FnArg template: ' + repr(toks)[:200])
    if 'GenericParam' in t:
        if len(toks) == 1 and is_i(toks[0]):
            return A.generic_type_param(Ident(toks[0][1], CALL_SITE, 'macro'), [])
        raise Unsupported('parse_quote GenericParam template')
    if 'ReturnType' in t:
        if toks and is_p(toks[0], '->'):
            return A.return_type(A.type_verbatim(toks[1:]))
        if not toks:
            return A.return_default()
        raise Unsupported('parse_quote ReturnType template')
    if 'Punctuated' in t and 'TypeParamBound' in t:
        items = []
        cur = []
        for x in toks + [('P', '+')]:
            if is_p(x, '+'):
                if len(cur) == 1 and cur[0][0] == 'LT':
                    items.append(A.bound_lifetime(A.lifetime(cur[0][1], origin='macro')))
                elif cur:
                    items.append(A.bound_verbatim(cur))
                cur = []
            else:
                cur.append(x)
        return Punct(items, 'Plus')
    if 'TypeParamBound' in t:
        if len(toks) == 1 and toks[0][0] == 'LT':
            return A.bound_lifetime(A.lifetime(toks[0][1], origin='macro'))
        if toks:
            return A.bound_verbatim(toks)
        raise PanicExc('parse_quote!', 'cannot parse an empty token stream as a bound')
    if 'WherePredicate' in t or 'Lifetime' in t or re.search(r'\b(Path|Expr|Stmt|Block|Item\w*|Attribute|Visibility|Generics|WhereClause)\b', t):
        raise Unsupported('parse_quote target ' + t)
    if re.search(r'\bPat\b', t):
        if len(toks) == 1 and is_i(toks[0]):
            tk = toks[0]
            return A.pat_ident(Ident(tk[1], CALL_SITE, tk[2] if len(tk) > 2 else 'macro', len(tk) > 3 and tk[3]))
        if not toks:
            raise PanicExc('parse_quote!', 'cannot parse an empty token stream as a pattern')
        raise Unsupported('parse_quote Pat template: ' + repr(toks)[:200])
    if re.search(r'\bType\b', t):
        if len(toks) == 2 and is_p(toks[0], '&') and is_i(toks[1], 'Self'):
            return A.type_ref(A.type_path_ident(Ident('Self', CALL_SITE, 'macro')))
        if len(toks) == 1 and is_i(toks[0], 'Self'):
            return A.type_path_ident(Ident('Self', CALL_SITE, 'macro'))
        if len(toks) == 1 and toks[0][0] == 'G' and toks[0][1] == '(' and not toks[0][2]:
            return A.type_tuple([])
        if len(toks) == 1 and is_i(toks[0]):
            tk = toks[0]
            return A.type_path_ident(Ident(tk[1], CALL_SITE, tk[2] if len(tk) > 2 else 'macro'))
        if toks and all(t_[0] in ('I', 'P', 'N', 'LT', 'G') for t_ in toks):
            return A.type_verbatim(toks)
        raise Unsupported('parse_quote Type template: ' + repr(toks)[:200])
    raise Unsupported('parse_quote target ' + t)
