"""Value domain of the MIR symbolic executor."""

import z3


class Unsupported(Exception):
    """a callee / construct the executor has neither a body nor a model for"""


class PanicExc(Exception):
    """the macro reached a panic site"""

    def __init__(self, site, msg=''):
        super().__init__(f'{site}: {msg}')
        self.site = site
        self.msg = msg


class Infeasible(Exception):
    """path condition became unsatisfiable (should not happen: forks are checked)"""


class Obj:
    """aggregate: struct / enum variant / tuple / closure / Option / Result ..."""
    __slots__ = ('ty', 'variant', 'fields', 'names')

    def __init__(self, ty, variant=None, fields=None, names=None):
        self.ty = ty
        self.variant = variant
        self.fields = fields if fields is not None else []
        self.names = names

    def __repr__(self):
        v = f'::{self.variant}' if self.variant else ''
        return f'{self.ty}{v}{self.fields!r}'

    def f(self, name):
        return self.fields[self.names.index(name)]


def Some(x):
    return Obj('Option', 'Some', [x])


def NONE():
    return Obj('Option', 'None', [])


def Ok(x):
    return Obj('Result', 'Ok', [x])


def Err(x):
    return Obj('Result', 'Err', [x])


UNIT = Obj('tuple', None, [])


class Ptr:
    """reference / raw pointer / Box-less indirection to a slot"""
    __slots__ = ('cont', 'idx')

    def __init__(self, cont, idx):
        self.cont = cont
        self.idx = idx

    def get(self):
        return self.cont[self.idx]

    def set(self, v):
        self.cont[self.idx] = v

    def __repr__(self):
        return f'&{self.cont[self.idx]!r:.60}'


def new_cell(v):
    return Ptr([v], 0)


class Span:
    __slots__ = ('origin',)

    def __init__(self, origin):
        self.origin = origin  # 'call_site' | ('input', label) | 'mixed'

    def __repr__(self):
        return f'Span({self.origin})'


CALL_SITE = Span('call_site')


class Ident:
    """proc_macro2::Ident. name: python str or z3 string term. origin: 'input' | 'macro'"""
    __slots__ = ('name', 'span', 'origin', 'raw')

    def __init__(self, name, span=CALL_SITE, origin='macro', raw=False):
        self.name = name
        self.span = span
        self.origin = origin
        self.raw = raw

    def __repr__(self):
        return f'Ident({self.name})'


class Tok:
    """a syn::token::X value (punctuation or keyword)"""
    __slots__ = ('name', 'span')

    def __init__(self, name, span=CALL_SITE):
        self.name = name
        self.span = span

    def __repr__(self):
        return f'Tok({self.name})'


class TS:
    """proc_macro2::TokenStream"""
    __slots__ = ('toks',)

    def __init__(self, toks=None):
        self.toks = toks if toks is not None else []

    def __repr__(self):
        return f'TS({len(self.toks)})'


class VecObj:
    __slots__ = ('items', 'kind')

    def __init__(self, items=None, kind='Vec'):
        self.items = items if items is not None else []
        self.kind = kind  # Vec | array | slice

    def __repr__(self):
        return f'{self.kind}{self.items!r:.80}'


class Punct:
    """syn::punctuated::Punctuated<T, P>"""
    __slots__ = ('items', 'sep', 'trailing')

    def __init__(self, items=None, sep='Comma', trailing=False):
        self.items = items if items is not None else []
        self.sep = sep
        self.trailing = trailing

    def __repr__(self):
        return f'Punct[{self.sep}]{self.items!r:.80}'


class SetObj:
    """HashSet<String> as a mathematical set (iteration deliberately not modelled)"""
    __slots__ = ('items',)

    def __init__(self, items=None):
        self.items = items if items is not None else []


class FnItem:
    __slots__ = ('path',)

    def __init__(self, path):
        self.path = path

    def __repr__(self):
        return f'fn {self.path}'


class Sym:
    """lazily initialised symbolic input node. key identifies the decision; gen(ex, i) builds alternative i
    (deterministically), n = number of alternatives."""
    __slots__ = ('key', 'n', 'gen', 'labels')

    def __init__(self, key, n, gen, labels=None):
        self.key = key
        self.n = n
        self.gen = gen
        self.labels = labels

    def __repr__(self):
        return f'Sym({self.key})'


class Iter:
    """lazy iterator value; see models.iter_next"""
    __slots__ = ('kind', 'a', 'b', 'pos')

    def __init__(self, kind, a=None, b=None):
        self.kind = kind
        self.a = a
        self.b = b
        self.pos = 0

    def __repr__(self):
        return f'Iter({self.kind})'


def is_sym_term(v):
    return isinstance(v, z3.ExprRef)


def clone_val(v):
    """deep copy of plain data (Clone / Copy semantics). Sym leaves, idents, tokens, spans are immutable and shared."""
    if isinstance(v, Obj):
        return Obj(v.ty, v.variant, [clone_val(x) for x in v.fields], v.names)
    if isinstance(v, VecObj):
        return VecObj([clone_val(x) for x in v.items], v.kind)
    if isinstance(v, Punct):
        return Punct([clone_val(x) for x in v.items], v.sep, v.trailing)
    if isinstance(v, TS):
        return TS(list(v.toks))
    if isinstance(v, SetObj):
        return SetObj(list(v.items))
    if isinstance(v, Ident):
        return Ident(v.name, v.span, v.origin, v.raw)
    if isinstance(v, Iter):
        # an iterator is a cursor over shared storage: the clone has its own position (and own adaptor chain)
        it = Iter(v.kind, clone_val(v.a) if isinstance(v.a, Iter) else v.a, clone_val(v.b) if isinstance(v.b, Iter) else v.b)
        it.pos = v.pos
        return it
    return v
