"""Front end: a model of syn's ParseBuffer over a *symbolic token list* (every position a lazily chosen token of a
stated alphabet, or the end), so that entrait's own `Parse` impls (attribute lists, item heads, module / impl
bodies) run symbolically; plus the reference grammar the option table documents."""

import re
import z3
from .values import *
from .models import MODELS, model, deref, deref_force
from . import synprint

SYN_KEYWORDS = {'abstract', 'as', 'async', 'await', 'become', 'box', 'break', 'const', 'continue', 'crate', 'do', 'dyn', 'else', 'enum',
                'extern', 'false', 'final', 'fn', 'for', 'if', 'impl', 'in', 'let', 'loop', 'macro', 'match', 'mod', 'move', 'mut',
                'override', 'priv', 'pub', 'ref', 'return', 'Self', 'self', 'static', 'struct', 'super', 'trait', 'true', 'try', 'type',
                'typeof', 'unsafe', 'unsized', 'use', 'virtual', 'where', 'while', 'yield'}

END = ('END',)


class PBuf:
    """syn::parse::ParseBuffer: shared token cells, own position"""
    __slots__ = ('toks', 'pos', 'key')

    def __init__(self, toks, pos=0, key='toks'):
        self.toks = toks
        self.pos = pos
        self.key = key

    def __repr__(self):
        return f'PBuf@{self.pos}/{len(self.toks)}'


def sym_tokens(key, n, alphabet, labels):
    """n lazily chosen positions; alternative 0 of every position is END (once END, always END)"""
    cells = []
    for i in range(n):
        cells.append(Sym(f'{key}[{i}]', len(alphabet) + 1, (lambda ex, a, i=i: END if a == 0 else alphabet[a - 1]), ['END'] + labels))
    return cells


# ---------------------------------------------------------------------------
# structured lazy tokens (item front end): Tk::{End, Ident(name), Punct(text), Group(delim, cells), Lit(text)} whose parts
# are themselves lazily chosen, so that a scan that only asks "brace group or `;`?" does not enumerate identifiers
# ---------------------------------------------------------------------------

ITEM_IDENTS = ['fn', 'pub', 'unsafe', 'auto', 'const', 'async', 'extern', 'trait', 'impl', 'mod', 'struct', 'use', 'f0', 'X']
ITEM_PUNCTS = [';', '#', '->', '!']
PAREN_GROUPS = {
    '()': [],
    '(deps: &impl B0)': [('I', 'deps'), ('P', ':'), ('P', '&'), ('I', 'impl'), ('I', 'B0')],
    '(deps: &impl B0, p1: u32)': [('I', 'deps'), ('P', ':'), ('P', '&'), ('I', 'impl'), ('I', 'B0'), ('P', ','), ('I', 'p1'), ('P', ':'), ('I', 'u32')],
    '(deps: &impl B0, #[allow(unused)] p1: u32)': [('I', 'deps'), ('P', ':'), ('P', '&'), ('I', 'impl'), ('I', 'B0'), ('P', ','),
                                                   ('P', '#'), ('G', '[', [('I', 'allow'), ('G', '(', [('I', 'unused')])]), ('I', 'p1'), ('P', ':'), ('I', 'u32')],
    '(crate)': [('I', 'crate')],
}
BRACE_GROUPS = {
    '{}': [],
    '{ fn inner() {} }': [('I', 'fn'), ('I', 'inner'), ('G', '(', []), ('G', '{', [])],
}
BRACKET_GROUPS = {
    '[inline]': [('I', 'inline')],
    '[cfg(any())]': [('I', 'cfg'), ('G', '(', [('I', 'any'), ('G', '(', [])])],
}


def sym_text(ex, key, alphabet):
    """a token text as a solver string ranging over the alphabet: the exploration forks only on the comparisons made"""
    v = z3.String('tk:' + key)
    seen = ex.notes.setdefault('tk_vars', {})
    if key not in seen:
        seen[key] = (v, alphabet)
        ex.assume(z3.Or([v == z3.StringVal(a) for a in alphabet]))
    return v


def text_is(ex, term, lit):
    """does the (possibly symbolic) token text equal `lit`? forks when undetermined; remembers what was learned"""
    if isinstance(term, str):
        return term == lit
    known = ex.notes.setdefault('tk_known', {})
    k = str(term)
    if k in known:
        return known[k] == lit
    r = ex.branch(term == z3.StringVal(lit), f'{k}=={lit}')
    if r:
        known[k] = lit
    return r


def text_in(ex, term, lits):
    if isinstance(term, str):
        return term in lits
    known = ex.notes.setdefault('tk_known', {})
    k = str(term)
    if k in known:
        return known[k] in lits
    _v, alphabet = ex.notes['tk_vars'][k[3:]]
    cands = [l for l in lits if l in alphabet]
    if not cands:
        return False
    return ex.branch(z3.Or([term == z3.StringVal(l) for l in cands]), f'{k} in {sorted(cands)[:3]}..')


def text_known(ex, term):
    if isinstance(term, str):
        return term
    return ex.notes.get('tk_known', {}).get(str(term), term)


def sym_item_token(key):
    def ident(ex):
        return Obj('Tk', 'Ident', [sym_text(ex, key + '.id', ITEM_IDENTS)])

    def punct(ex):
        return Obj('Tk', 'Punct', [sym_text(ex, key + '.p', ITEM_PUNCTS)])

    def group(ex):
        def delim(ex2, i):
            d = ['{', '(', '['][i]
            table = {'{': BRACE_GROUPS, '(': PAREN_GROUPS, '[': BRACKET_GROUPS}[d]
            labels = list(table)
            return Obj('tuple', None, [d, Sym(key + '.g.c', len(labels), lambda ex3, j: table[labels[j]], labels)])
        return Obj('Tk', 'Group', [Sym(key + '.g', 3, delim, ['{', '(', '['])])

    return Sym(key, 5, lambda ex, i: [lambda e: Obj('Tk', 'End', []), ident, punct, group, lambda e: Obj('Tk', 'Lit', ['"C"'])][i](ex),
               ['END', 'ident', 'punct', 'group', 'literal'])


def sym_item_tokens(key, n):
    return [sym_item_token(f'{key}[{i}]') for i in range(n)]


def tk_is_end(t):
    return t == END or (isinstance(t, Obj) and t.ty == 'Tk' and t.variant == 'End')


def tk_ident(ex, t):
    """identifier text (str or solver term) or None"""
    if isinstance(t, tuple):
        return t[1] if t[0] == 'I' else None
    if t.variant == 'Ident':
        return text_known(ex, t.fields[0])
    return None


def tk_punct(ex, t):
    if isinstance(t, tuple):
        return t[1] if t[0] == 'P' else None
    if t.variant == 'Punct':
        return text_known(ex, t.fields[0])
    return None


def ident_is(ex, t, lit):
    n = tk_ident(ex, t) if t != END else None
    return n is not None and text_is(ex, n, lit)


def punct_is(ex, t, lit):
    n = tk_punct(ex, t) if t != END else None
    return n is not None and text_is(ex, n, lit)


def ident_name(ex, t):
    """non-keyword identifier text, or None"""
    n = tk_ident(ex, t) if t != END else None
    if n is None:
        return None
    if text_in(ex, n, SYN_KEYWORDS | {'_'}):
        return None
    return n


def tk_group_delim(ex, t):
    if isinstance(t, tuple):
        return t[1] if t[0] == 'G' else None
    if t.variant == 'Group':
        g = ex.force_slot(t.fields, 0)
        return g.fields[0]
    return None


def tk_group_content(ex, t):
    if isinstance(t, tuple):
        return list(t[2])
    g = ex.force_slot(t.fields, 0)
    return list(ex.force_slot(g.fields, 1))


def tk_lit(ex, t):
    if isinstance(t, tuple):
        return t[1] if t[0] == 'L' else None
    return t.fields[0] if t.variant == 'Lit' else None


def tk_view(t):
    """abstract token for output streams: resolved parts as tokens, unresolved parts as atoms"""
    if isinstance(t, tuple):
        return view_tok(t)
    return ('TKN', t)


def tk_flat(t, resolve, known=None):
    """structured token -> view tokens (used by the printer); known: solver term -> learned concrete text"""
    def r(x):
        return resolve(x) if isinstance(x, Sym) else x
    if t.variant == 'Ident':
        n = known(t.fields[0]) if known else t.fields[0]
        return [('I', n, 'input')]
    if t.variant == 'Punct':
        n = known(t.fields[0]) if known else t.fields[0]
        return [('P', n, 'input')] if isinstance(n, str) else [('PSYM', n, 'input')]
    if t.variant == 'Lit':
        return [('L', t.fields[0], 'input')]
    if t.variant == 'Group':
        g = r(t.fields[0])
        if isinstance(g, Sym):
            return [('ATOM', g.key, 'input')]
        c = r(g.fields[1])
        if isinstance(c, Sym):
            return [('G', g.fields[0], [('ATOM', c.key, 'input')], 'input')]
        return [('G', g.fields[0], [view_tok(x) for x in c], 'input')]
    return []


def expand_segments(ex, toks, upto):
    """segments (lazily chosen runs of 0..n tokens, key prefix `seg:`) are spliced in place, left to right"""
    j = 0
    while j <= upto and j < len(toks):
        t = toks[j]
        if isinstance(t, Sym) and t.key.startswith('seg:'):
            run = ex.force(t)
            toks[j:j + 1] = list(run.fields[0])
            continue
        j += 1


def seg(key, alts, labels):
    """alts: list of token lists (tokens may be concrete tuples or further segments)"""
    return Sym('seg:' + key, len(alts), lambda ex, i: Obj('Seg', None, [list(alts[i])]), labels)


def sym_item_segments(key, dims='full'):
    """one legal item of a module / impl body as a run of segments:
    attrs? vis? (fn-item | struct X; | use X; | mod X {} | impl X {} | trait X {} | extern "C" {} | X!{})"""
    I_ = lambda n: ('I', n)
    fn_name = {'a': 'f0', 'b': 'f1', 'c': 'f2'}.get(key[-1], 'f0')
    attrs = seg(key + '.attrs', [[], [('P', '#'), ('G', '[', [I_('inline')])], [('P', '#'), ('G', '[', [I_('cfg'), ('G', '(', [I_('any'), ('G', '(', [])])])]],
                ['no attr', '#[inline]', '#[cfg(any())]'])
    vis = seg(key + '.vis', [[], [I_('pub')], [I_('pub'), ('G', '(', [I_('crate')])], [I_('pub'), ('G', '(', [I_('self')])],
                             [I_('pub'), ('G', '(', [I_('in'), I_('self')])]],
              ['private', 'pub', 'pub(crate)', 'pub(self)', 'pub(in self)'])
    q_const = seg(key + '.const', [[], [I_('const')]], ['', 'const'])
    q_async = seg(key + '.async', [[], [I_('async')]], ['', 'async'])
    q_unsafe = seg(key + '.unsafe', [[], [I_('unsafe')]], ['', 'unsafe'])
    q_abi = seg(key + '.abi', [[], [I_('extern')], [I_('extern'), ('L', '"C"')]], ['', 'extern', 'extern "C"'])
    params = seg(key + '.params', [[('G', '(', list(PAREN_GROUPS['(deps: &impl B0)']))], [('G', '(', list(PAREN_GROUPS['(deps: &impl B0, p1: u32)']))],
                                    [('G', '(', list(PAREN_GROUPS['(deps: &impl B0, #[allow(unused)] p1: u32)']))]], ['(deps)', '(deps, p1)', '(deps, #[allow(unused)] p1)'])
    ret = seg(key + '.ret', [[], [('P', '->'), I_('u32')],
                             [('P', '->'), I_('impl'), I_('Iterator'), ('P', '<'), I_('Item'), ('P', '='), I_('u32'), ('P', '>')]],
              ['', '-> u32', '-> impl Iterator<Item = u32>'])
    term = seg(key + '.term', [[('G', '{', [])], [('P', ';')], [('G', '{', list(BRACE_GROUPS['{ fn inner() {} }']))]], ['{}', ';', '{ fn inner() {} }'])
    fn_item = [q_const, q_async, q_unsafe, q_abi, I_('fn'), I_(fn_name), params, ret, term]
    if dims == 'reduced':
        term2 = seg(key + '.term', [[('G', '{', [])], [('P', ';')]], ['{}', ';'])
        fn_item = [q_unsafe, I_('fn'), I_(fn_name), ('G', '(', list(PAREN_GROUPS['(deps: &impl B0)'])), term2]
        kinds = [fn_item, [I_('struct'), I_('X'), ('P', ';')], [I_('impl'), I_('X'), ('G', '{', list(BRACE_GROUPS['{ fn inner() {} }']))],
                 [I_('X'), ('P', '!'), ('G', '{', [I_('fn'), I_('in_macro'), ('G', '(', []), ('G', '{', [])])]]
        kind = seg(key + '.kind', kinds, ['fn item', 'struct', 'impl', 'macro invocation'])
        return [vis, kind]
    kinds = [fn_item,
             [I_('struct'), I_('X'), ('P', ';')],
             [I_('use'), I_('X'), ('P', ';')],
             [I_('mod'), I_('X'), ('G', '{', list(BRACE_GROUPS['{ fn inner() {} }']))],
             [I_('impl'), I_('X'), ('G', '{', list(BRACE_GROUPS['{ fn inner() {} }']))],
             [I_('trait'), I_('X'), ('G', '{', [I_('fn'), I_('tm'), ('G', '(', []), ('P', ';')])],
             [I_('extern'), ('L', '"C"'), ('G', '{', [I_('fn'), I_('ext'), ('G', '(', []), ('P', ';')])],
             [I_('X'), ('P', '!'), ('G', '{', [I_('fn'), I_('in_macro'), ('G', '(', []), ('G', '{', [])])]]
    if dims == 'single-fn':
        # a directly annotated fn: rustc evaluates a `cfg` placed on the item itself before the macro runs, so no cfg alternative
        attrs = seg(key + '.attrs', [[], [('P', '#'), ('G', '[', [I_('inline')])]], ['no attr', '#[inline]'])
        return [attrs, vis] + fn_item
    if dims == 'trait-head':
        # a directly annotated trait: what Input::parse consumes before it knows that a trait follows
        attrs = seg(key + '.attrs', [[], [('P', '#'), ('G', '[', [I_('allow'), ('G', '(', [I_('unused')])])],
                                     [('P', '#'), ('G', '[', [I_('allow'), ('G', '(', [I_('dead_code')])])]], ['no attr', '#[allow(unused)]', '#[allow(dead_code)]'])
        return [attrs, vis, q_unsafe, I_('trait'), I_('Tr'), ('G', '{', [])]
    kind = seg(key + '.kind', kinds, ['fn item', 'struct', 'use', 'mod', 'impl', 'trait', 'extern block', 'macro invocation'])
    return [attrs, vis, kind]


def layout_cells(layout):
    """the token cells of a front-item slice layout (shared by the driver and by concretisation for replay)"""
    cells = []
    fixed_fn = [('I', 'pub'), ('I', 'fn'), ('I', 'g0'), ('G', '(', list(PAREN_GROUPS['(deps: &impl B0)'])), ('G', '{', [])]
    for part in layout:
        if part == 'FN':
            cells += list(fixed_fn)
        elif part == 'STRUCT':
            cells += [('I', 'struct'), ('I', 'Y'), ('P', ';')]
        else:
            dims = {'r': 'reduced', 's': 'single-fn', 't': 'trait-head'}.get(part[0], 'full')
            cells += sym_item_segments('it.' + part, dims)
    return cells


def tok_at(ex, pb, k=0):
    i = pb.pos + k
    expand_segments(ex, pb.toks, i)
    if i >= len(pb.toks):
        return END
    # END is absorbing: if an earlier position is END so is this one
    for j in range(0, i):
        if not isinstance(pb.toks[j], Sym) and tk_is_end(pb.toks[j]):
            return END
    t = ex.force_slot(pb.toks, i)
    if tk_is_end(t):
        return END
    return t


def span_at(pb, k=0):
    return Span(('input-token', pb.key, pb.pos + k))


def is_tok(t, name, ex=None):
    if t == END:
        return False
    if name in ('Paren', 'Brace', 'Bracket'):
        return tk_group_delim(ex, t) == {'Paren': '(', 'Brace': '{', 'Bracket': '['}[name]
    if name in ('LitStr', 'Lit'):
        return tk_lit(ex, t) is not None
    if name == 'Ident':
        return ident_name(ex, t) is not None
    if name not in synprint.TOKENS:
        raise Unsupported('peek target ' + name)
    txt = synprint.TOKENS[name]
    if txt[0].isalpha() or txt == '_':
        return ident_is(ex, t, txt)
    return punct_is(ex, t, txt)


def err(pb, msg, k=0):
    return Err(Obj('Error', None, [span_at(pb, k), msg], ['span', 'message']))


def token_name_from_generics(text):
    m = re.search(r'-> (?:syn::token::)?(\w+) \{', text)
    if m:
        return m.group(1)
    m = re.search(r'token::(\w+)', text)
    return m.group(1) if m else None


def pb_of(v):
    v = deref(v)
    if not isinstance(v, PBuf):
        raise Unsupported('expected a ParseBuffer')
    return v


@model('ParseBuffer::peek')
def _peek(ex, c, a):
    pb = pb_of(a[0])
    name = token_name_from_generics(c.generics)
    if name is None:
        raise Unsupported('peek target ' + c.generics)
    return is_tok(tok_at(ex, pb), name, ex)


@model('ParseBuffer::peek2', 'ParseBuffer::peek3')
def _peek23(ex, c, a):
    pb = pb_of(a[0])
    name = token_name_from_generics(c.generics)
    if name is None:
        raise Unsupported('peek target ' + c.generics)
    return is_tok(tok_at(ex, pb, 1 if c.method == 'peek2' else 2), name, ex)


@model('ParseBuffer::is_empty')
def _pb_is_empty(ex, c, a):
    return tok_at(ex, pb_of(a[0])) == END


@model('ParseBuffer::span')
def _pb_span(ex, c, a):
    pb = pb_of(a[0])
    return span_at(pb)


@model('ParseBuffer::fork')
def _pb_fork(ex, c, a):
    pb = pb_of(a[0])
    return PBuf(pb.toks, pb.pos, pb.key)


@model('ParseBuffer::cursor')
def _pb_cursor(ex, c, a):
    pb = pb_of(a[0])
    return Obj('Cursor', None, [pb.toks, pb.pos, pb.key])


@model('ParseBuffer::lookahead1')
def _lookahead1(ex, c, a):
    return Obj('Lookahead1', None, [pb_of(a[0]), []])


@model('Lookahead1::peek')
def _la_peek(ex, c, a):
    la = deref(a[0])
    name = token_name_from_generics(c.generics)
    la.fields[1].append(name)
    return is_tok(tok_at(ex, la.fields[0]), name, ex)


@model('Lookahead1::error')
def _la_error(ex, c, a):
    la = a[0] if isinstance(a[0], Obj) else deref(a[0])
    pb = la.fields[0]
    names = la.fields[1]
    msg = 'expected ' + ' or '.join({'Brace': 'curly braces', 'Paren': 'parentheses', 'Bracket': 'square brackets'}.get(n, f'`{synprint.TOKENS.get(n, n)}`') for n in names)
    if tok_at(ex, pb) == END:
        msg = 'unexpected end of input, ' + msg
    return Obj('Error', None, [span_at(pb), msg], ['span', 'message'])


def parse_visibility(ex, pb):
    """syn::Visibility::parse"""
    A = ex.prog.ast
    t = tok_at(ex, pb)
    if not is_tok(t, 'Pub', ex):
        return A.vis_inherited()
    pb.pos += 1
    t2 = tok_at(ex, pb)
    if t2 != END and tk_group_delim(ex, t2) == '(':
        inner = tk_group_content(ex, t2)
        if len(inner) == 1 and inner[0][0] == 'I' and inner[0][1] in ('crate', 'self', 'super'):
            pb.pos += 1
            return A.vis_restricted([Ident(inner[0][1], Span(('input', 'vis')), 'input')])
        if len(inner) >= 2 and inner[0] == ('I', 'in'):
            pb.pos += 1
            segs = [Ident(x[1], Span(('input', 'vis')), 'input') for x in inner[1:] if x[0] == 'I']
            return A.vis_restricted(segs, with_in=True)
    return A.vis_pub()


@model('ParseBuffer::parse')
def _pb_parse(ex, c, a):
    pb = pb_of(a[0])
    g = c.generics or ''
    inner = g[3:-1] if g.startswith('::<') else g
    base = inner.strip()
    opt = False
    m = re.match(r'^Option<(.*)>$', base)
    if m:
        opt = True
        base = m.group(1).strip()
    short = base.split('::')[-1]
    t = tok_at(ex, pb)
    # token types
    if short in synprint.TOKENS and short not in ('Type', 'Box', 'Default', 'Macro') or base.startswith('syn::token::'):
        if is_tok(t, short, ex):
            sp = span_at(pb)
            pb.pos += 1
            tk = Tok(short, sp)
            return Ok(Some(tk) if opt else tk)
        if opt:
            return Ok(NONE())
        return err(pb, f'expected `{synprint.TOKENS[short]}`')
    if short == 'Ident':
        nm = ident_name(ex, t)
        if nm is not None:
            idn = Ident(nm, span_at(pb), 'input')
            pb.pos += 1
            return Ok(idn)
        if t == END:
            return err(pb, 'unexpected end of input, expected identifier')
        kw = tk_ident(ex, t)
        if kw is not None and isinstance(kw, str) and kw != '_':
            return err(pb, f'expected identifier, found keyword `{kw}`')
        return err(pb, 'expected identifier')
    if short == 'Visibility':
        return Ok(parse_visibility(ex, pb))
    if short in ('V', 'LitBool'):
        # the only instantiation of parse_eq_value_or_default in the crate is V = syn::LitBool
        if ident_is(ex, t, 'true') or ident_is(ex, t, 'false'):
            sp = span_at(pb)
            val = ident_is(ex, t, 'true')
            pb.pos += 1
            return Ok(Obj('LitBool', None, [val, sp], ['value', 'span']))
        return err(pb, 'expected boolean literal' if t != END else 'unexpected end of input, expected boolean literal')
    if short == 'TokenStream':
        out = []
        while tok_at(ex, pb) != END:
            out.append(tk_view(tok_at(ex, pb)))
            pb.pos += 1
        return Ok(TS(out if any(o[0] == 'TKN' for o in out) else [('RAW', 'rest', out)]))
    # crate-local Parse impls
    name = ex.prog.ix.methods.get((short, 'Parse', 'parse'))
    if name:
        return ex.run_body(ex.prog.bodies[name], [new_cell(pb) if False else a[0]])
    fn = ITEM_PARSERS.get(short)
    if fn:
        r = fn(ex, pb)
        if opt and isinstance(r, Obj) and r.ty == 'Result' and r.variant == 'Ok':
            return r
        return r
    raise Unsupported('ParseBuffer::parse::<' + base + '>')


ITEM_PARSERS = {}


def view_tok(t):
    if t[0] == 'G':
        return ('G', t[1], [view_tok(x) for x in t[2]], 'input')
    return (t[0], t[1], 'input')


@model('ParseBuffer::call')
def _pb_call(ex, c, a):
    f = a[1]
    if isinstance(f, FnItem) and 'parse_outer' in f.path:
        return parse_outer_attrs(ex, pb_of(a[0]))
    if isinstance(f, FnItem) and 'parse_any' in f.path:
        # syn::ext::IdentExt::parse_any: any identifier token, keywords included
        pb = pb_of(a[0])
        t = tok_at(ex, pb)
        nm = tk_ident(ex, t) if t != END else None
        if nm is not None:
            idn = Ident(nm, span_at(pb), 'input')
            pb.pos += 1
            return Ok(idn)
        return err(pb, 'expected ident' if t != END else 'unexpected end of input, expected ident')
    raise Unsupported('ParseBuffer::call ' + str(f))


def parse_outer_attrs(ex, pb):
    A = ex.prog.ast
    attrs = []
    while True:
        t = tok_at(ex, pb)
        if not punct_is(ex, t, '#'):
            break
        t2 = tok_at(ex, pb, 1)
        if t2 == END or tk_group_delim(ex, t2) != '[':
            return err(pb, 'expected square brackets', 1)
        inner = tk_group_content(ex, t2)
        # `#[ident]` / `#[ident(tokens)]` / `#[path::ident]`
        path_ids = []
        k = 0
        while k < len(inner) and inner[k][0] == 'I':
            path_ids.append(Ident(inner[k][1], Span(('input', 'attr')), 'input'))
            k += 1
            if k < len(inner) and inner[k] == ('P', '::'):
                k += 1
            else:
                break
        if not path_ids:
            return err(pb, 'expected identifier', 1)
        if k == len(inner):
            attrs.append(A.attr_path(A.path(path_ids)))
        elif inner[k][0] == 'G' and inner[k][1] == '(' and k == len(inner) - 1:
            attrs.append(A.attr_list(A.path(path_ids), [view_tok(x) for x in inner[k][2]]))
        else:
            raise Unsupported('attribute shape')
        pb.pos += 2
    return Ok(VecObj(attrs))


@model('parse_braces', 'parse_parens')
def _parse_group(ex, c, a):
    pb = pb_of(a[0])
    t = tok_at(ex, pb)
    d = '{' if c.method == 'parse_braces' else '('
    if t != END and tk_group_delim(ex, t) == d:
        sp = span_at(pb)
        pb.pos += 1
        cells = t[2] if isinstance(t, tuple) and len(t) > 2 and isinstance(t[2], list) and t[2] and isinstance(t[2][0], Sym) else None
        content = PBuf(cells if cells is not None else (t[2] if isinstance(t, tuple) and isinstance(t[2], list) else tk_group_content(ex, t)), 0, pb.key + f'.g{pb.pos}')
        return Ok(Obj('Braces' if d == '{' else 'Parens', None, [Tok('Brace' if d == '{' else 'Paren', sp), content], ['token', 'content']))
    return err(pb, 'expected curly braces' if d == '{' else 'expected parentheses')


@model('ParseBuffer::step')
def _pb_step(ex, c, a):
    pb = pb_of(a[0])
    cur = Obj('StepCursor', None, [Obj('Cursor', None, [pb.toks, pb.pos, pb.key])])
    r = ex.force(ex.call_value(a[1], [cur]))
    if r.variant == 'Ok':
        val, rest = r.fields[0].fields
        pb.pos = rest.fields[1]
        return Ok(val)
    return r


@model('<StepCursor as Deref>::deref')
def _stepcursor_deref(ex, c, a):
    sc = deref(a[0])
    return Ptr(sc.fields, 0)


@model('Cursor::token_tree')
def _cursor_tt(ex, c, a):
    cur = a[0] if isinstance(a[0], Obj) else deref(a[0])
    toks, pos, key = cur.fields
    pb = PBuf(toks, pos, key)
    t = tok_at(ex, pb)
    if t == END:
        return NONE()
    if isinstance(t, Obj):
        kind = {'Group': 'Group', 'Punct': 'Punct', 'Ident': 'Ident', 'Lit': 'Literal'}[t.variant]
        tt = Obj('TokenTree', kind, [Obj(kind + 'TT' if kind in ('Ident', 'Literal') else kind, None, [t, tk_view(t)])])
    elif t[0] == 'G':
        tt = Obj('TokenTree', 'Group', [Obj('Group', None, [t[1], view_tok(t)])])
    elif t[0] == 'P':
        tt = Obj('TokenTree', 'Punct', [Obj('Punct', None, [t[1], view_tok(t)])])
    elif t[0] == 'I':
        tt = Obj('TokenTree', 'Ident', [Obj('IdentTT', None, [t[1], view_tok(t)])])
    else:
        tt = Obj('TokenTree', 'Literal', [Obj('LiteralTT', None, [t[1], view_tok(t)])])
    return Some(Obj('tuple', None, [tt, Obj('Cursor', None, [toks, pos + 1, key])]))


@model('Group::delimiter')
def _group_delim(ex, c, a):
    g = deref(a[0])
    d = g.fields[0]
    if isinstance(d, Obj):
        d = tk_group_delim(ex, d)
    return Obj('Delimiter', {'(': 'Parenthesis', '{': 'Brace', '[': 'Bracket', '': 'None'}[d], [])


@model('Punct::as_char')
def _punct_as_char(ex, c, a):
    p = deref(a[0])
    ch = p.fields[0]
    if isinstance(ch, Obj):
        tk = ch
        ch = tk_punct(ex, tk)
        if not isinstance(ch, str):
            # Punct::as_char() of a symbolic punctuation: only ever compared with ';' by entrait
            return ';' if punct_is(ex, tk, ';') else '\x00'
    return ch[0]


@model('<Cursor as PartialEq>::ne', '<Cursor as PartialEq>::eq')
def _cursor_ne(ex, c, a):
    x, y = deref(a[0]), deref(a[1])
    same = x.fields[0] is y.fields[0] and x.fields[1] == y.fields[1]
    return (not same) if c.method == 'ne' else same


@model('<Delimiter as PartialEq>::eq')
def _delim_eq(ex, c, a):
    return deref(a[0]).variant == deref(a[1]).variant


def _extend_tt(ex, ts, it):
    from .models import iter_next, into_iter
    it = into_iter(ex, it)
    while True:
        n = iter_next(ex, it)
        if n.variant == 'None':
            return
        tt = n.fields[0]
        v = tt.fields[0].fields[1]
        ts.toks.append(v if v[0] == 'TKN' else ('RAW', 'tt', [v]))


# `TokenStream::extend(once(tt))` with TokenTree values
_old_extend = MODELS['Extend::extend']


def _extend2(ex, c, a):
    tgt = deref(a[0])
    if isinstance(tgt, TS):
        _extend_tt(ex, tgt, a[1])
        return UNIT
    return _old_extend(ex, c, a)


MODELS['Extend::extend'] = _extend2
MODELS['TokenStream::extend'] = _extend2


# ---------------------------------------------------------------------------
# attribute alphabets
# ---------------------------------------------------------------------------

ATTR_IDENTS = ['no_deps', 'debug', 'export', 'mock_api', 'unimock', 'mockall', 'delegate_by', 'Send', 'Borrow', 'Foo', 'Bar',
               'true', 'false', 'ref', 'dyn', 'pub', 'Self']
ATTR_PUNCTS = ['?', '=', ',']


def attr_alphabet():
    alpha = [('I', n) for n in ATTR_IDENTS] + [('P', p) for p in ATTR_PUNCTS] + [('G', '(', [('I', 'crate')])]
    labels = ATTR_IDENTS + ATTR_PUNCTS + ['(crate)']
    return alpha, labels


def tokens_source(toks):
    out = []
    for t in toks:
        if t == END:
            break
        if t[0] == 'G':
            out.append('(' + tokens_source(t[2]) + ')' if t[1] == '(' else '{' + tokens_source(t[2]) + '}')
        else:
            out.append(t[1])
    return ' '.join(out)


# ---------------------------------------------------------------------------
# the documented attribute grammar (src/lib.rs option table): reference parser over concrete tokens
# ---------------------------------------------------------------------------

BOOL_OPTS = ('no_deps', 'debug', 'export', 'unimock', 'mockall')
ACCEPTED = {
    'fn': {'no_deps', 'debug', 'export', 'mock_api', 'unimock', 'mockall', '?Send'},
    'mod': {'debug', 'export', 'mock_api', 'unimock', 'mockall', '?Send'},   # the option table documents no_deps for `fn` only
    'trait': {'debug', 'mock_api', 'unimock', 'mockall', '?Send', 'delegate_by'},
    'impl': {'debug'},
}


class RefParse:
    """outcome: ('ok', dict) | ('err', why) | ('unspecified', why)"""

    def __init__(self, toks):
        self.t = [x for x in toks]
        self.i = 0

    def peek(self, k=0):
        return self.t[self.i + k] if self.i + k < len(self.t) else END

    def option(self, target):
        t = self.peek()
        if t == ('P', '?'):
            n = self.peek(1)
            if n == ('I', 'Send'):
                self.i += 2
                return ('?Send', True)
            if n != END and n[0] == 'I' and n[1] not in SYN_KEYWORDS:
                return ('err', 'unknown option after ?')
            return ('err', 'identifier expected after ?')
        if t == END:
            return ('unspecified', 'option expected at end (trailing comma)')
        if t[0] != 'I' or t[1] in SYN_KEYWORDS:
            return ('err', 'identifier expected')
        name = t[1]
        self.i += 1
        if name in BOOL_OPTS:
            if self.peek() == ('P', '='):
                v = self.peek(1)
                if v in (('I', 'true'), ('I', 'false')):
                    self.i += 2
                    return (name, v[1] == 'true')
                return ('err', 'boolean expected')
            return (name, True)
        if name == 'mock_api':
            if self.peek() == ('P', '=') and self.peek(1) != END and self.peek(1)[0] == 'I' and self.peek(1)[1] not in SYN_KEYWORDS:
                v = self.peek(1)[1]
                self.i += 2
                return ('mock_api', v)
            return ('err', 'mock_api = Ident expected')
        if name == 'delegate_by':
            if self.peek() == ('P', '='):
                v = self.peek(1)
                if v == ('I', 'ref'):
                    self.i += 2
                    return ('delegate_by', 'ref')
                if v == ('I', 'Self'):
                    self.i += 2
                    return ('delegate_by', 'Self')
                if v != END and v[0] == 'I' and v[1] not in SYN_KEYWORDS:
                    self.i += 2
                    return ('delegate_by', 'Borrow' if v[1] == 'Borrow' else ('trait', v[1]))
                return ('err', 'delegate_by value expected')
            return ('delegate_by', 'Self')
        return ('err', f'unknown option {name}')


def ref_parse_attr(target, toks):
    toks = [t for t in toks if t != END]
    p = RefParse(toks)
    res = dict(vis=None, ident=None, opts={}, impl_kind=None)

    def vis():
        if p.peek() == ('I', 'pub'):
            p.i += 1
            if p.peek() != END and p.peek()[0] == 'G':
                p.i += 1
                return 'pub(crate)'
            return 'pub'
        return ''

    def add(o):
        if o[0] in ('err', 'unspecified'):
            return o
        if o[0] not in ACCEPTED[target]:
            return ('err', f'option {o[0]} is not documented for {target}')
        if o[0] in res['opts']:
            return ('unspecified', 'duplicate option')
        res['opts'][o[0]] = o[1]
        return None

    if target in ('fn', 'mod'):
        res['vis'] = vis()
        t = p.peek()
        if t == END or t[0] != 'I' or t[1] in SYN_KEYWORDS:
            return ('err', 'trait identifier expected')
        res['ident'] = t[1]
        p.i += 1
        while p.peek() == ('P', ','):
            p.i += 1
            r = add(p.option(target))
            if r:
                return r
        if p.peek() != END:
            return ('err', 'unexpected token')
        return ('ok', res)
    if target == 'trait':
        if p.peek() == END:
            return ('ok', res)
        # an option first?
        save = p.i
        first_is_opt = False
        t = p.peek()
        if t == ('P', '?'):
            first_is_opt = True
        elif t != END and t[0] == 'I' and t[1] in BOOL_OPTS + ('mock_api', 'delegate_by'):
            q = RefParse(toks)
            q.i = p.i
            o = q.option(target)
            first_is_opt = o[0] not in ('err', 'unspecified')
            if not first_is_opt and o[0] == 'err':
                # e.g. `mock_api` alone: documented neither as a trait name (it is an option keyword) nor valid as option
                return ('unspecified', 'option keyword in trait-name position')
        if not first_is_opt:
            res['vis'] = vis()
            t = p.peek()
            if t == END or t[0] != 'I' or t[1] in SYN_KEYWORDS:
                return ('err', 'delegation-target trait identifier expected')
            res['ident'] = t[1]
            p.i += 1
            if p.peek() == ('P', ','):
                p.i += 1
            if p.peek() == END:
                return ('ok', res)
        while True:
            r = add(p.option(target))
            if r:
                return r
            if p.peek() == ('P', ','):
                p.i += 1
                if p.peek() == END:
                    return ('unspecified', 'trailing comma')
            else:
                break
        if p.peek() != END:
            return ('err', 'unexpected token')
        return ('ok', res)
    if target == 'impl':
        kind = 'static'
        if p.peek() == ('I', 'ref'):
            p.i += 1
            kind = 'ref'
        if p.peek() == ('I', 'dyn'):
            p.i += 1
            kind = 'ref'
        res['impl_kind'] = kind
        if p.peek() == END:
            return ('ok', res)
        if kind == 'ref' and p.peek() == ('P', ','):
            return ('unspecified', 'separator after ref')
        while True:
            r = add(p.option(target))
            if r:
                return r
            if p.peek() == ('P', ','):
                p.i += 1
                if p.peek() == END:
                    return ('unspecified', 'trailing comma')
            else:
                break
        if p.peek() != END:
            return ('err', 'unexpected token')
        return ('ok', res)
    raise ValueError(target)


# ---------------------------------------------------------------------------
# syn grammar productions entrait calls on items (models over the item alphabet; generic-free signatures)
# ---------------------------------------------------------------------------

def build_inputs(ex, content):
    """AST for one of the fixed parameter-list groups"""
    A = ex.prog.ast
    flat = [(t[0], t[1]) for t in content]
    for label, toks in PAREN_GROUPS.items():
        if flat == [(t[0], t[1]) for t in toks]:
            if label == '()':
                return []
            deps = A.fn_arg_typed(A.pat_ident(Ident('deps', Span(('input', 'p')), 'input')),
                                  A.type_ref(A.type_impl_trait([A.bound_trait(A.path([Ident('B0', Span(('input', 'p')), 'input')]))])))
            if label == '(deps: &impl B0)':
                return [deps]
            if label == '(deps: &impl B0, p1: u32)':
                return [deps, A.fn_arg_typed(A.pat_ident(Ident('p1', Span(('input', 'p')), 'input')), A.type_path_ident(Ident('u32', Span(('input', 'p')), 'input')))]
            if label == '(deps: &impl B0, #[allow(unused)] p1: u32)':
                at = A.attr_list(A.path([Ident('allow', Span(('input', 'attr')), 'input')]), [('I', 'unused', 'input')])
                return [deps, A.fn_arg_typed(A.pat_ident(Ident('p1', Span(('input', 'p')), 'input')), A.type_path_ident(Ident('u32', Span(('input', 'p')), 'input')),
                                             attrs=VecObj([at]))]
    return None


def impl_type_token_ok(ex, x, k):
    """tokens of an `impl Trait<Assoc = T>` type as far as the model reads them: `impl` first, a trait name second, then only
    names and `= , :: +`"""
    if k == 1:
        return ident_is(ex, x, 'impl')
    if k == 2:
        return ident_name(ex, x) is not None
    return ident_name(ex, x) is not None or any(punct_is(ex, x, p_) for p_ in ('=', ',', '::', '+'))


def parse_abi_opt(ex, pb):
    A = ex.prog.ast
    t = tok_at(ex, pb)
    if ident_is(ex, t, 'extern'):
        pb.pos += 1
        t2 = tok_at(ex, pb)
        name = None
        if t2 != END and tk_lit(ex, t2) is not None:
            name = tk_lit(ex, t2)
            pb.pos += 1
        return Some(A.node('Abi', name=Some(Obj('LitStr', None, [name])) if name else NONE()))
    return NONE()


def parse_signature(ex, pb):
    """syn::Signature::parse restricted to: const? async? unsafe? (extern LIT?)? fn IDENT ( params ) (-> IDENT)?"""
    A = ex.prog.ast
    flags = {}
    for kw in ('const', 'async', 'unsafe'):
        t = tok_at(ex, pb)
        if ident_is(ex, t, kw):
            flags[kw] = True
            pb.pos += 1
    abi = parse_abi_opt(ex, pb)
    t = tok_at(ex, pb)
    if not ident_is(ex, t, 'fn'):
        return err(pb, 'expected `fn`')
    pb.pos += 1
    t = tok_at(ex, pb)
    nm = ident_name(ex, t)
    if nm is None:
        return err(pb, 'expected identifier')
    ident = Ident(nm, span_at(pb), 'input')
    pb.pos += 1
    t = tok_at(ex, pb)
    if t == END or tk_group_delim(ex, t) != '(':
        return err(pb, 'expected parentheses')
    content = tk_group_content(ex, t)
    if [(x[0], x[1]) for x in content] == [('I', 'crate')]:
        # `fn f(crate)`: syn reads a path pattern and then misses the `:` of a typed parameter
        return err(pb, 'expected `:`')
    inputs = build_inputs(ex, content)
    if inputs is None:
        raise Unsupported('signature model: parameter list outside the modelled alphabet')
    pb.pos += 1
    output = A.return_default()
    t = tok_at(ex, pb)
    if punct_is(ex, t, '->'):
        t2 = tok_at(ex, pb, 1)
        rn = ident_name(ex, t2)
        if rn is None and not ident_is(ex, t2, 'impl'):
            return err(pb, 'expected type', 1)
        if ident_is(ex, t2, 'impl'):
            # `impl Trait<Assoc = T>`: taken verbatim up to the body / `;` (angle brackets balanced)
            toks, k, depth = [], 1, 0
            while True:
                x = tok_at(ex, pb, k)
                if x == END or (depth == 0 and (tk_group_delim(ex, x) == '{' or punct_is(ex, x, ';') or ident_is(ex, x, 'where'))):
                    break
                if punct_is(ex, x, '<'):
                    depth += 1
                elif punct_is(ex, x, '>'):
                    depth -= 1
                elif not impl_type_token_ok(ex, x, k):
                    return err(pb, 'expected type', k)
                toks.append(view_tok(x) if isinstance(x, tuple) else tk_flat(x, lambda s_: ex.force(s_), lambda n_: n_)[0])
                k += 1
            if depth != 0 or len(toks) < 2:
                return err(pb, 'expected type', 1)
            pb.pos += k
            output = A.return_type(A.type_verbatim(toks))
        else:
            pb.pos += 2
            output = A.return_type(A.type_path_ident(Ident(rn, Span(('input', 'ret')), 'input')))
    sig = A.node('Signature', constness=Some(Tok('Const')) if flags.get('const') else NONE(), asyncness=Some(Tok('Async')) if flags.get('async') else NONE(),
                 unsafety=Some(Tok('Unsafe')) if flags.get('unsafe') else NONE(), abi=abi, ident=ident, generics=A.generics([], None),
                 inputs=Punct(inputs, 'Comma'), variadic=NONE(), output=output)
    return Ok(sig)


def parse_abi(ex, pb):
    return Ok(parse_abi_opt(ex, pb))


def parse_path(ex, pb):
    A = ex.prog.ast
    t = tok_at(ex, pb)
    nm = ident_name(ex, t)
    if nm is None:
        return err(pb, 'expected identifier')
    pb.pos += 1
    return Ok(A.path([Ident(nm, span_at(pb), 'input')]))


def parse_type(ex, pb):
    r = parse_path(ex, pb)
    if r.variant == 'Err':
        return r
    return Ok(ex.prog.ast.type_path(r.fields[0]))


def parse_item_trait(ex, pb):
    """`trait IDENT { }` (attrs / vis / unsafe / auto were consumed by the caller and are re-attached by it)"""
    A = ex.prog.ast
    t = tok_at(ex, pb)
    if not ident_is(ex, t, 'trait'):
        return err(pb, 'expected `trait`')
    pb.pos += 1
    t = tok_at(ex, pb)
    nm = ident_name(ex, t)
    if nm is None:
        return err(pb, 'expected identifier')
    pb.pos += 1
    t = tok_at(ex, pb)
    if t == END or tk_group_delim(ex, t) != '{':
        return err(pb, 'expected curly braces')
    body = tk_group_content(ex, t)
    items = []
    if body:
        flat = [(x[0], x[1]) for x in body]
        if flat[:2] == [('I', 'fn'), ('I', 'inner')] and len(body) == 4 and body[2][0] == 'G' and body[2][1] == '(' and not body[2][2] \
                and body[3][0] == 'G' and body[3][1] == '{':
            # `{ fn inner() {} }`: one provided method without receiver
            sig = A.node('Signature', constness=NONE(), asyncness=NONE(), unsafety=NONE(), abi=NONE(), ident=Ident('inner', Span(('input', 't')), 'input'),
                         generics=A.generics([], None), inputs=Punct([], 'Comma'), variadic=NONE(), output=A.return_default())
            items.append(A.enum('TraitItem', 'Fn', A.node('TraitItemFn', attrs=VecObj([]), sig=sig,
                                                          default=Some(Obj('Opaque', None, ['block', [('G', '{', [], 'input')]])), semi_token=NONE())))
        else:
            raise Unsupported('trait-body model: only an empty body or `{ fn inner() {} }`')
    pb.pos += 1
    return Ok(A.node('ItemTrait', vis=A.vis_inherited(), unsafety=NONE(), auto_token=NONE(), restriction=NONE(), ident=Ident(nm, Span(('input', 't')), 'input'),
                     generics=A.generics([], None), colon_token=NONE(), supertraits=Punct([], 'Plus'), items=VecObj(items)))


ITEM_PARSERS.update({'Signature': parse_signature, 'Abi': parse_abi, 'Path': parse_path, 'Type': parse_type, 'ItemTrait': parse_item_trait})


# ---------------------------------------------------------------------------
# reference classification of module / impl bodies (C08, C02): written from the property text, over the same lazy tokens
# ---------------------------------------------------------------------------

def ref_items(ex, cells, pub_only=True):
    """-> ('ok', [(kind, name|None, start, end)]) | ('err', why) | ('unspecified', why: the tokens are not legal Rust items, so
    rustc never hands them to the macro).  kind: 'fn' (becomes a trait method) | 'other'"""
    pb = PBuf(cells, 0, 'ref')
    items = []
    while tok_at(ex, pb) != END:
        start = pb.pos
        while punct_is(ex, tok_at(ex, pb), '#'):
            t2 = tok_at(ex, pb, 1)
            if t2 == END or tk_group_delim(ex, t2) != '[':
                return ('unspecified', 'malformed attribute')
            pb.pos += 2
        vis = False
        t = tok_at(ex, pb)
        if ident_is(ex, t, 'pub'):
            vis = True
            pb.pos += 1
            t2 = tok_at(ex, pb)
            if t2 != END and tk_group_delim(ex, t2) == '(':
                c = tk_group_content(ex, t2)
                if len(c) == 1 and c[0][0] == 'I' and c[0][1] in ('crate', 'self', 'super'):
                    pb.pos += 1
                elif len(c) >= 2 and c[0] == ('I', 'in') and all(x[0] == 'I' or x == ('P', '::') for x in c[1:]):
                    pb.pos += 1   # pub(in path)
                else:
                    return ('unspecified', 'pub followed by a group that is not a visibility restriction')
        save = pb.pos
        k = 0
        for kw in ('const', 'async', 'unsafe'):
            if ident_is(ex, tok_at(ex, pb, k), kw):
                k += 1
        if ident_is(ex, tok_at(ex, pb, k), 'extern'):
            k += 1
            t = tok_at(ex, pb, k)
            if t != END and tk_lit(ex, t) is not None:
                k += 1
        if ident_is(ex, tok_at(ex, pb, k), 'fn'):
            pb.pos += k + 1
            nm = ident_name(ex, tok_at(ex, pb))
            if nm is None:
                return ('unspecified', 'fn without a name')
            pb.pos += 1
            t = tok_at(ex, pb)
            if t == END or tk_group_delim(ex, t) != '(':
                return ('unspecified', 'fn without a parameter list')
            if [(x[0], x[1]) for x in tk_group_content(ex, t)] == [('I', 'crate')]:
                return ('unspecified', '`(crate)` is a visibility restriction, not a parameter list')
            pb.pos += 1
            if punct_is(ex, tok_at(ex, pb), '->'):
                if ident_is(ex, tok_at(ex, pb, 1), 'impl'):
                    k, depth = 1, 0
                    while True:
                        x = tok_at(ex, pb, k)
                        if x == END or (depth == 0 and (tk_group_delim(ex, x) == '{' or punct_is(ex, x, ';'))):
                            break
                        if not (punct_is(ex, x, '<') or punct_is(ex, x, '>') or impl_type_token_ok(ex, x, k)):
                            return ('unspecified', 'malformed return type')
                        depth += 1 if punct_is(ex, x, '<') else (-1 if punct_is(ex, x, '>') else 0)
                        k += 1
                    if depth != 0 or k < 3:
                        return ('unspecified', 'malformed return type')
                    pb.pos += k
                elif ident_name(ex, tok_at(ex, pb, 1)) is None:
                    return ('unspecified', 'missing return type')
                else:
                    pb.pos += 2
            t = tok_at(ex, pb)
            if punct_is(ex, t, ';'):
                pb.pos += 1
                items.append(('other', None, start, pb.pos))     # body-less declaration: never a method
                continue
            if t == END or tk_group_delim(ex, t) != '{':
                return ('unspecified', 'fn without a body')
            pb.pos += 1
            items.append(('fn' if (vis or not pub_only) else 'other', nm, start, pb.pos))
            continue
        pb.pos = save
        # the other item kinds of the alphabet
        t = tok_at(ex, pb)
        if ident_is(ex, t, 'struct') or ident_is(ex, t, 'use'):
            if ident_name(ex, tok_at(ex, pb, 1)) is None or not punct_is(ex, tok_at(ex, pb, 2), ';'):
                return ('unspecified', 'struct/use item shape')
            pb.pos += 3
        elif ident_is(ex, t, 'mod') or ident_is(ex, t, 'trait') or ident_is(ex, t, 'impl'):
            t2 = tok_at(ex, pb, 2)
            if ident_name(ex, tok_at(ex, pb, 1)) is None or t2 == END or tk_group_delim(ex, t2) != '{':
                return ('unspecified', 'mod/trait/impl item shape')
            pb.pos += 3
        elif ident_is(ex, t, 'extern'):
            t1, t2 = tok_at(ex, pb, 1), tok_at(ex, pb, 2)
            if t1 == END or tk_lit(ex, t1) is None or t2 == END or tk_group_delim(ex, t2) != '{':
                return ('unspecified', 'extern block shape')
            pb.pos += 3
        elif ident_name(ex, t) is not None and punct_is(ex, tok_at(ex, pb, 1), '!'):
            t2 = tok_at(ex, pb, 2)
            if t2 == END or tk_group_delim(ex, t2) != '{':
                return ('unspecified', 'macro invocation shape')
            pb.pos += 3
        else:
            return ('unspecified', 'not an item of the alphabet')
        items.append(('other', None, start, pb.pos))
    return ('ok', items)


def scan_to_brace_or_semi(ex, pb):
    while True:
        t = tok_at(ex, pb)
        if t == END:
            return ('err', 'item without a body or terminating `;`')
        pb.pos += 1
        if tk_group_delim(ex, t) == '{' or tk_punct(ex, t) == ';':
            break
    while tok_at(ex, pb) != END and tk_punct(ex, tok_at(ex, pb)) == ';':
        pb.pos += 1
    return None


# ---------------------------------------------------------------------------
# attribute lists made of whole option items (longer lists than the flat token alphabet reaches): order independence,
# acceptance per target, interactions between two options
# ---------------------------------------------------------------------------

def attr_option_items(reduced=False):
    I_ = lambda n: ('I', n)
    P_ = lambda c: ('P', c)
    items = [
        ('unimock = false', [I_('unimock'), P_('='), I_('false')]),
        ('mock_api = Bar', [I_('mock_api'), P_('='), I_('Bar')]),
        ('mockall', [I_('mockall')]),
        ('export = false', [I_('export'), P_('='), I_('false')]),
        ('no_deps', [I_('no_deps')]),
        ('?Send', [P_('?'), I_('Send')]),
        ('delegate_by = ref', [I_('delegate_by'), P_('='), I_('ref')]),
        ('debug = false', [I_('debug'), P_('='), I_('false')]),
    ]
    if not reduced:
        items += [
            ('unimock', [I_('unimock')]),
            ('export', [I_('export')]),
            ('no_deps = false', [I_('no_deps'), P_('='), I_('false')]),
            ('mockall = true', [I_('mockall'), P_('='), I_('true')]),
            ('delegate_by = Foo', [I_('delegate_by'), P_('='), I_('Foo')]),
        ]
    return items


def attr_item_cells(target, k, head, reduced=False):
    """[head ,] item (, item)*  with every item one lazily chosen segment (alternative 0 = nothing more)"""
    items = attr_option_items(reduced)
    cells = []
    if head:
        cells.append(('I', 'Foo'))
    for j in range(k):
        lead = [('P', ',')] if (head or j > 0) else []
        cells.append(seg(f'opt[{j}]', [[]] + [lead + list(toks) for _, toks in items], ['(end)'] + [lbl for lbl, _ in items]))
    return cells


@model('Punct::spacing')
def _punct_spacing(ex, c, a):
    """a multi-character punctuation token stands for its first character here: Joint; a single character: Alone"""
    p = deref(a[0])
    ch = p.fields[0]
    if isinstance(ch, Obj):
        ch = tk_punct(ex, ch)
        if not isinstance(ch, str):
            raise Unsupported('Punct::spacing of a symbolic punctuation')
    return Obj('Spacing', 'Joint' if len(ch) > 1 else 'Alone', [])


@model('<Spacing as PartialEq>::eq', '<Spacing as PartialEq>::ne')
def _spacing_eq(ex, c, a):
    same = deref(a[0]).variant == deref(a[1]).variant
    return same if c.method == 'eq' else not same
