"""Front end: a model of syn's ParseBuffer over a *symbolic token list* (every position a lazily chosen token of a
stated alphabet, or the end), so that entrait's own `Parse` impls (attribute lists, item heads, module / impl
bodies) run symbolically; plus the reference grammar the option table documents."""

import re
import z3
from .values import *
from .models import MODELS, model, deref, deref_force
from . import synprint

SYN_KEYWORDS = {'abstract', 'as', 'async', 'await', 'become', 'box', 'break', 'const', 'continue', 'crate', 'do', 'dyn', 'else', 'enum',
                'extern', 'false', 'final', 'fn', 'for', 'if', 'impl', 'in', 'let', 'loop', 'macro', 'match', 'mod', 'move', 'mut',
                'override', 'priv', 'pub', 'ref', 'return', 'Self', 'self', 'static', 'struct', 'super', 'trait', 'true', 'try', 'type',
                'typeof', 'unsafe', 'unsized', 'use', 'virtual', 'where', 'while', 'yield'}

END = ('END',)


class PBuf:
    """syn::parse::ParseBuffer: shared token cells, own position"""
    __slots__ = ('toks', 'pos', 'key')

    def __init__(self, toks, pos=0, key='toks'):
        self.toks = toks
        self.pos = pos
        self.key = key

    def __repr__(self):
        return f'PBuf@{self.pos}/{len(self.toks)}'


def sym_tokens(key, n, alphabet, labels):
    """n lazily chosen positions; alternative 0 of every position is END (once END, always END)"""
    cells = []
    for i in range(n):
        cells.append(Sym(f'{key}[{i}]', len(alphabet) + 1, (lambda ex, a, i=i: END if a == 0 else alphabet[a - 1]), ['END'] + labels))
    return cells


def tok_at(ex, pb, k=0):
    i = pb.pos + k
    if i >= len(pb.toks):
        return END
    # END is absorbing: if an earlier position is END so is this one
    for j in range(0, i):
        if not isinstance(pb.toks[j], Sym) and pb.toks[j] == END:
            return END
    t = ex.force_slot(pb.toks, i)
    return t


def span_at(pb, k=0):
    return Span(('input-token', pb.key, pb.pos + k))


def is_tok(t, name):
    if t == END:
        return False
    if name in ('Paren', 'Brace', 'Bracket'):
        return t[0] == 'G' and t[1] == {'Paren': '(', 'Brace': '{', 'Bracket': '['}[name]
    txt = synprint.TOKENS[name]
    if txt[0].isalpha() or txt == '_':
        return t[0] == 'I' and t[1] == txt
    return t[0] == 'P' and t[1] == txt


def err(pb, msg, k=0):
    return Err(Obj('Error', None, [span_at(pb, k), msg], ['span', 'message']))


def token_name_from_generics(text):
    m = re.search(r'-> (?:syn::token::)?(\w+) \{', text)
    if m:
        return m.group(1)
    m = re.search(r'token::(\w+)', text)
    return m.group(1) if m else None


def pb_of(v):
    v = deref(v)
    if not isinstance(v, PBuf):
        raise Unsupported('expected a ParseBuffer')
    return v


@model('ParseBuffer::peek')
def _peek(ex, c, a):
    pb = pb_of(a[0])
    name = token_name_from_generics(c.generics)
    if name is None:
        raise Unsupported('peek target ' + c.generics)
    return is_tok(tok_at(ex, pb), name)


@model('ParseBuffer::is_empty')
def _pb_is_empty(ex, c, a):
    return tok_at(ex, pb_of(a[0])) == END


@model('ParseBuffer::span')
def _pb_span(ex, c, a):
    pb = pb_of(a[0])
    return span_at(pb)


@model('ParseBuffer::fork')
def _pb_fork(ex, c, a):
    pb = pb_of(a[0])
    return PBuf(pb.toks, pb.pos, pb.key)


@model('ParseBuffer::cursor')
def _pb_cursor(ex, c, a):
    pb = pb_of(a[0])
    return Obj('Cursor', None, [pb.toks, pb.pos, pb.key])


@model('ParseBuffer::lookahead1')
def _lookahead1(ex, c, a):
    return Obj('Lookahead1', None, [pb_of(a[0]), []])


@model('Lookahead1::peek')
def _la_peek(ex, c, a):
    la = deref(a[0])
    name = token_name_from_generics(c.generics)
    la.fields[1].append(name)
    return is_tok(tok_at(ex, la.fields[0]), name)


@model('Lookahead1::error')
def _la_error(ex, c, a):
    la = a[0] if isinstance(a[0], Obj) else deref(a[0])
    pb = la.fields[0]
    names = la.fields[1]
    msg = 'expected ' + ' or '.join({'Brace': 'curly braces', 'Paren': 'parentheses', 'Bracket': 'square brackets'}.get(n, f'`{synprint.TOKENS.get(n, n)}`') for n in names)
    if tok_at(ex, pb) == END:
        msg = 'unexpected end of input, ' + msg
    return Obj('Error', None, [span_at(pb), msg], ['span', 'message'])


def parse_visibility(ex, pb):
    """syn::Visibility::parse"""
    A = ex.prog.ast
    t = tok_at(ex, pb)
    if not is_tok(t, 'Pub'):
        return A.vis_inherited()
    pb.pos += 1
    t2 = tok_at(ex, pb)
    if t2 != END and t2[0] == 'G' and t2[1] == '(':
        inner = t2[2]
        if len(inner) == 1 and inner[0][0] == 'I' and inner[0][1] in ('crate', 'self', 'super'):
            pb.pos += 1
            return A.vis_restricted([Ident(inner[0][1], Span(('input', 'vis')), 'input')])
        if len(inner) >= 2 and inner[0] == ('I', 'in'):
            pb.pos += 1
            segs = [Ident(x[1], Span(('input', 'vis')), 'input') for x in inner[1:] if x[0] == 'I']
            return A.vis_restricted(segs, with_in=True)
    return A.vis_pub()


@model('ParseBuffer::parse')
def _pb_parse(ex, c, a):
    pb = pb_of(a[0])
    g = c.generics or ''
    inner = g[3:-1] if g.startswith('::<') else g
    base = inner.strip()
    opt = False
    m = re.match(r'^Option<(.*)>$', base)
    if m:
        opt = True
        base = m.group(1).strip()
    short = base.split('::')[-1]
    t = tok_at(ex, pb)
    # token types
    if short in synprint.TOKENS and short not in ('Type', 'Box', 'Default', 'Macro') or base.startswith('syn::token::'):
        if is_tok(t, short):
            sp = span_at(pb)
            pb.pos += 1
            tk = Tok(short, sp)
            return Ok(Some(tk) if opt else tk)
        if opt:
            return Ok(NONE())
        return err(pb, f'expected `{synprint.TOKENS[short]}`')
    if short == 'Ident':
        if t != END and t[0] == 'I' and t[1] not in SYN_KEYWORDS and t[1] != '_':
            idn = Ident(t[1], span_at(pb), 'input')
            pb.pos += 1
            return Ok(idn)
        return err(pb, 'expected identifier' if t != END else 'unexpected end of input, expected identifier')
    if short == 'Visibility':
        return Ok(parse_visibility(ex, pb))
    if short in ('V', 'LitBool'):
        # the only instantiation of parse_eq_value_or_default in the crate is V = syn::LitBool
        if t != END and t[0] == 'I' and t[1] in ('true', 'false'):
            sp = span_at(pb)
            pb.pos += 1
            return Ok(Obj('LitBool', None, [t[1] == 'true', sp], ['value', 'span']))
        return err(pb, 'expected boolean literal' if t != END else 'unexpected end of input, expected boolean literal')
    if short == 'TokenStream':
        out = []
        while tok_at(ex, pb) != END:
            out.append(view_tok(tok_at(ex, pb)))
            pb.pos += 1
        return Ok(TS([('RAW', 'rest', out)]))
    # crate-local Parse impls
    name = ex.prog.ix.methods.get((short, 'Parse', 'parse'))
    if name:
        return ex.run_body(ex.prog.bodies[name], [new_cell(pb) if False else a[0]])
    fn = ITEM_PARSERS.get(short)
    if fn:
        r = fn(ex, pb)
        if opt and isinstance(r, Obj) and r.ty == 'Result' and r.variant == 'Ok':
            return r
        return r
    raise Unsupported('ParseBuffer::parse::<' + base + '>')


ITEM_PARSERS = {}


def view_tok(t):
    if t[0] == 'G':
        return ('G', t[1], [view_tok(x) for x in t[2]], 'input')
    return (t[0], t[1], 'input')


@model('ParseBuffer::call')
def _pb_call(ex, c, a):
    f = a[1]
    if isinstance(f, FnItem) and 'parse_outer' in f.path:
        return parse_outer_attrs(ex, pb_of(a[0]))
    raise Unsupported('ParseBuffer::call ' + str(f))


def parse_outer_attrs(ex, pb):
    A = ex.prog.ast
    attrs = []
    while True:
        t = tok_at(ex, pb)
        if not (t != END and t[0] == 'P' and t[1] == '#'):
            break
        t2 = tok_at(ex, pb, 1)
        if t2 == END or t2[0] != 'G' or t2[1] != '[':
            return err(pb, 'expected square brackets', 1)
        inner = t2[2]
        # `#[ident]` / `#[ident(tokens)]` / `#[path::ident]`
        path_ids = []
        k = 0
        while k < len(inner) and inner[k][0] == 'I':
            path_ids.append(Ident(inner[k][1], Span(('input', 'attr')), 'input'))
            k += 1
            if k < len(inner) and inner[k] == ('P', '::'):
                k += 1
            else:
                break
        if not path_ids:
            return err(pb, 'expected identifier', 1)
        if k == len(inner):
            attrs.append(A.attr_path(A.path(path_ids)))
        elif inner[k][0] == 'G' and inner[k][1] == '(' and k == len(inner) - 1:
            attrs.append(A.attr_list(A.path(path_ids), [view_tok(x) for x in inner[k][2]]))
        else:
            raise Unsupported('attribute shape')
        pb.pos += 2
    return Ok(VecObj(attrs))


@model('parse_braces', 'parse_parens')
def _parse_group(ex, c, a):
    pb = pb_of(a[0])
    t = tok_at(ex, pb)
    d = '{' if c.method == 'parse_braces' else '('
    if t != END and t[0] == 'G' and t[1] == d:
        sp = span_at(pb)
        pb.pos += 1
        content = PBuf(list(t[2]), 0, pb.key + f'.g{pb.pos}')
        return Ok(Obj('Braces' if d == '{' else 'Parens', None, [Tok('Brace' if d == '{' else 'Paren', sp), content], ['token', 'content']))
    return err(pb, 'expected curly braces' if d == '{' else 'expected parentheses')


@model('ParseBuffer::step')
def _pb_step(ex, c, a):
    pb = pb_of(a[0])
    cur = Obj('StepCursor', None, [Obj('Cursor', None, [pb.toks, pb.pos, pb.key])])
    r = ex.force(ex.call_value(a[1], [cur]))
    if r.variant == 'Ok':
        val, rest = r.fields[0].fields
        pb.pos = rest.fields[1]
        return Ok(val)
    return r


@model('<StepCursor as Deref>::deref')
def _stepcursor_deref(ex, c, a):
    sc = deref(a[0])
    return Ptr(sc.fields, 0)


@model('Cursor::token_tree')
def _cursor_tt(ex, c, a):
    cur = a[0] if isinstance(a[0], Obj) else deref(a[0])
    toks, pos, key = cur.fields
    pb = PBuf(toks, pos, key)
    t = tok_at(ex, pb)
    if t == END:
        return NONE()
    if t[0] == 'G':
        tt = Obj('TokenTree', 'Group', [Obj('Group', None, [t[1], view_tok(t)])])
    elif t[0] == 'P':
        tt = Obj('TokenTree', 'Punct', [Obj('Punct', None, [t[1], view_tok(t)])])
    elif t[0] == 'I':
        tt = Obj('TokenTree', 'Ident', [Obj('IdentTT', None, [t[1], view_tok(t)])])
    else:
        tt = Obj('TokenTree', 'Literal', [Obj('LiteralTT', None, [t[1], view_tok(t)])])
    return Some(Obj('tuple', None, [tt, Obj('Cursor', None, [toks, pos + 1, key])]))


@model('Group::delimiter')
def _group_delim(ex, c, a):
    g = deref(a[0])
    return Obj('Delimiter', {'(': 'Parenthesis', '{': 'Brace', '[': 'Bracket', '': 'None'}[g.fields[0]], [])


@model('Punct::as_char')
def _punct_as_char(ex, c, a):
    p = deref(a[0])
    return p.fields[0][0]


@model('<Cursor as PartialEq>::ne', '<Cursor as PartialEq>::eq')
def _cursor_ne(ex, c, a):
    x, y = deref(a[0]), deref(a[1])
    same = x.fields[0] is y.fields[0] and x.fields[1] == y.fields[1]
    return (not same) if c.method == 'ne' else same


@model('<Delimiter as PartialEq>::eq')
def _delim_eq(ex, c, a):
    return deref(a[0]).variant == deref(a[1]).variant


def _extend_tt(ex, ts, it):
    from .models import iter_next, into_iter
    it = into_iter(ex, it)
    while True:
        n = iter_next(ex, it)
        if n.variant == 'None':
            return
        tt = n.fields[0]
        ts.toks.append(('RAW', 'tt', [tt.fields[0].fields[1]]))


# `TokenStream::extend(once(tt))` with TokenTree values
_old_extend = MODELS['Extend::extend']


def _extend2(ex, c, a):
    tgt = deref(a[0])
    if isinstance(tgt, TS):
        _extend_tt(ex, tgt, a[1])
        return UNIT
    return _old_extend(ex, c, a)


MODELS['Extend::extend'] = _extend2
MODELS['TokenStream::extend'] = _extend2


# ---------------------------------------------------------------------------
# attribute alphabets
# ---------------------------------------------------------------------------

ATTR_IDENTS = ['no_deps', 'debug', 'export', 'mock_api', 'unimock', 'mockall', 'delegate_by', 'Send', 'Borrow', 'Foo', 'Bar',
               'true', 'false', 'ref', 'dyn', 'pub', 'Self']
ATTR_PUNCTS = ['?', '=', ',']


def attr_alphabet():
    alpha = [('I', n) for n in ATTR_IDENTS] + [('P', p) for p in ATTR_PUNCTS] + [('G', '(', [('I', 'crate')])]
    labels = ATTR_IDENTS + ATTR_PUNCTS + ['(crate)']
    return alpha, labels


def tokens_source(toks):
    out = []
    for t in toks:
        if t == END:
            break
        if t[0] == 'G':
            out.append('(' + tokens_source(t[2]) + ')' if t[1] == '(' else '{' + tokens_source(t[2]) + '}')
        else:
            out.append(t[1])
    return ' '.join(out)


# ---------------------------------------------------------------------------
# the documented attribute grammar (src/lib.rs option table): reference parser over concrete tokens
# ---------------------------------------------------------------------------

BOOL_OPTS = ('no_deps', 'debug', 'export', 'unimock', 'mockall')
ACCEPTED = {
    'fn': {'no_deps', 'debug', 'export', 'mock_api', 'unimock', 'mockall', '?Send'},
    'mod': {'debug', 'export', 'mock_api', 'unimock', 'mockall', '?Send'},   # the option table documents no_deps for `fn` only
    'trait': {'debug', 'mock_api', 'unimock', 'mockall', '?Send', 'delegate_by'},
    'impl': {'debug'},
}


class RefParse:
    """outcome: ('ok', dict) | ('err', why) | ('unspecified', why)"""

    def __init__(self, toks):
        self.t = [x for x in toks]
        self.i = 0

    def peek(self, k=0):
        return self.t[self.i + k] if self.i + k < len(self.t) else END

    def option(self, target):
        t = self.peek()
        if t == ('P', '?'):
            n = self.peek(1)
            if n == ('I', 'Send'):
                self.i += 2
                return ('?Send', True)
            if n != END and n[0] == 'I' and n[1] not in SYN_KEYWORDS:
                return ('err', 'unknown option after ?')
            return ('err', 'identifier expected after ?')
        if t == END:
            return ('unspecified', 'option expected at end (trailing comma)')
        if t[0] != 'I' or t[1] in SYN_KEYWORDS:
            return ('err', 'identifier expected')
        name = t[1]
        self.i += 1
        if name in BOOL_OPTS:
            if self.peek() == ('P', '='):
                v = self.peek(1)
                if v in (('I', 'true'), ('I', 'false')):
                    self.i += 2
                    return (name, v[1] == 'true')
                return ('err', 'boolean expected')
            return (name, True)
        if name == 'mock_api':
            if self.peek() == ('P', '=') and self.peek(1) != END and self.peek(1)[0] == 'I' and self.peek(1)[1] not in SYN_KEYWORDS:
                v = self.peek(1)[1]
                self.i += 2
                return ('mock_api', v)
            return ('err', 'mock_api = Ident expected')
        if name == 'delegate_by':
            if self.peek() == ('P', '='):
                v = self.peek(1)
                if v == ('I', 'ref'):
                    self.i += 2
                    return ('delegate_by', 'ref')
                if v == ('I', 'Self'):
                    self.i += 2
                    return ('delegate_by', 'Self')
                if v != END and v[0] == 'I' and v[1] not in SYN_KEYWORDS:
                    self.i += 2
                    return ('delegate_by', 'Borrow' if v[1] == 'Borrow' else ('trait', v[1]))
                return ('err', 'delegate_by value expected')
            return ('delegate_by', 'Self')
        return ('err', f'unknown option {name}')


def ref_parse_attr(target, toks):
    toks = [t for t in toks if t != END]
    p = RefParse(toks)
    res = dict(vis=None, ident=None, opts={}, impl_kind=None)

    def vis():
        if p.peek() == ('I', 'pub'):
            p.i += 1
            if p.peek() != END and p.peek()[0] == 'G':
                p.i += 1
                return 'pub(crate)'
            return 'pub'
        return ''

    def add(o):
        if o[0] in ('err', 'unspecified'):
            return o
        if o[0] not in ACCEPTED[target]:
            return ('err', f'option {o[0]} is not documented for {target}')
        if o[0] in res['opts']:
            return ('unspecified', 'duplicate option')
        res['opts'][o[0]] = o[1]
        return None

    if target in ('fn', 'mod'):
        res['vis'] = vis()
        t = p.peek()
        if t == END or t[0] != 'I' or t[1] in SYN_KEYWORDS:
            return ('err', 'trait identifier expected')
        res['ident'] = t[1]
        p.i += 1
        while p.peek() == ('P', ','):
            p.i += 1
            r = add(p.option(target))
            if r:
                return r
        if p.peek() != END:
            return ('err', 'unexpected token')
        return ('ok', res)
    if target == 'trait':
        if p.peek() == END:
            return ('ok', res)
        # an option first?
        save = p.i
        first_is_opt = False
        t = p.peek()
        if t == ('P', '?'):
            first_is_opt = True
        elif t != END and t[0] == 'I' and t[1] in BOOL_OPTS + ('mock_api', 'delegate_by'):
            q = RefParse(toks)
            q.i = p.i
            o = q.option(target)
            first_is_opt = o[0] not in ('err', 'unspecified')
            if not first_is_opt and o[0] == 'err':
                # e.g. `mock_api` alone: documented neither as a trait name (it is an option keyword) nor valid as option
                return ('unspecified', 'option keyword in trait-name position')
        if not first_is_opt:
            res['vis'] = vis()
            t = p.peek()
            if t == END or t[0] != 'I' or t[1] in SYN_KEYWORDS:
                return ('err', 'delegation-target trait identifier expected')
            res['ident'] = t[1]
            p.i += 1
            if p.peek() == ('P', ','):
                p.i += 1
            if p.peek() == END:
                return ('ok', res)
        while True:
            r = add(p.option(target))
            if r:
                return r
            if p.peek() == ('P', ','):
                p.i += 1
                if p.peek() == END:
                    return ('unspecified', 'trailing comma')
            else:
                break
        if p.peek() != END:
            return ('err', 'unexpected token')
        return ('ok', res)
    if target == 'impl':
        kind = 'static'
        if p.peek() == ('I', 'ref'):
            p.i += 1
            kind = 'ref'
        if p.peek() == ('I', 'dyn'):
            p.i += 1
            kind = 'ref'
        res['impl_kind'] = kind
        if p.peek() == END:
            return ('ok', res)
        if kind == 'ref' and p.peek() == ('P', ','):
            return ('unspecified', 'separator after ref')
        while True:
            r = add(p.option(target))
            if r:
                return r
            if p.peek() == ('P', ','):
                p.i += 1
                if p.peek() == END:
                    return ('unspecified', 'trailing comma')
            else:
                break
        if p.peek() != END:
            return ('err', 'unexpected token')
        return ('ok', res)
    raise ValueError(target)
