"""Parser for rustc's `-Zunpretty=mir` text (the only description of entrait_macros that
Engine S ever sees)."""

import re

# ---------------------------------------------------------------------------
# low-level string helpers
# ---------------------------------------------------------------------------

OPEN = {'(': ')', '[': ']', '{': '}', '<': '>'}
CLOSE = {')', ']', '}', '>'}


def skip_string(s, i):
    """s[i] == '"' (or b" handled by caller): return index just after the closing quote"""
    assert s[i] == '"'
    i += 1
    n = len(s)
    while i < n:
        c = s[i]
        if c == '\\':
            i += 2
            continue
        if c == '"':
            return i + 1
        i += 1
    raise ValueError('unterminated string')


def split_top(s, sep=','):
    """split at top-level separators; aware of nesting, string literals, `->` and lifetimes"""
    out = []
    depth = 0
    i = 0
    n = len(s)
    start = 0
    while i < n:
        c = s[i]
        if c == '"':
            i = skip_string(s, i)
            continue
        if c == "'":
            # char literal or lifetime
            m = re.match(r"'(\\.|[^\\'])'", s[i:])
            if m:
                i += m.end()
                continue
            i += 1
            continue
        if c in '([{':
            depth += 1
        elif c in ')]}':
            depth -= 1
        elif c == '<':
            # generic bracket only when it looks like one (not a shift / comparison: MIR has none in operands)
            depth += 1
        elif c == '>':
            if i > 0 and s[i - 1] in '-=':
                pass  # -> or =>
            else:
                depth -= 1
        elif c == sep and depth == 0:
            out.append(s[start:i].strip())
            start = i + 1
        i += 1
    last = s[start:].strip()
    if last:
        out.append(last)
    return out


def match_close(s, i):
    """s[i] is an opening bracket; return the index of its matching close"""
    depth = 0
    n = len(s)
    while i < n:
        c = s[i]
        if c == '"':
            i = skip_string(s, i)
            continue
        if c == "'":
            m = re.match(r"'(\\.|[^\\'])'", s[i:])
            if m:
                i += m.end()
                continue
        if c in '([{':
            depth += 1
        elif c in ')]}':
            depth -= 1
            if depth == 0:
                return i
        elif c == '<':
            depth += 1
        elif c == '>':
            if i > 0 and s[i - 1] in '-=':
                pass
            else:
                depth -= 1
                if depth == 0:
                    return i
        i += 1
    raise ValueError('no matching close in ' + s[:80])


# ---------------------------------------------------------------------------
# places / operands / rvalues
# ---------------------------------------------------------------------------

class Place:
    __slots__ = ('local', 'proj')

    def __init__(self, local, proj):
        self.local = local
        self.proj = proj  # tuple of ('deref',) | ('field', n) | ('downcast', name) | ('index', local) | ('cindex', n, from_end)

    def __repr__(self):
        return f'_{self.local}{list(self.proj)}'


def parse_place(s):
    s = s.strip()
    p, i = _place(s, 0)
    # postfix index
    while i < len(s) and s[i] == '[':
        j = match_close(s, i)
        inner = s[i + 1:j]
        m = re.match(r'^_(\d+)$', inner)
        if m:
            p = Place(p.local, p.proj + (('index', int(m.group(1))),))
        else:
            m = re.match(r'^(-?)(\d+) of (\d+)$', inner)
            if m:
                p = Place(p.local, p.proj + (('cindex', int(m.group(2)), bool(m.group(1))),))
            else:
                raise ValueError('index form ' + inner)
        i = j + 1
    assert i == len(s), (s, i)
    return p


def _place(s, i):
    if s[i] == '_':
        m = re.match(r'_(\d+)', s[i:])
        return Place(int(m.group(1)), ()), i + m.end()
    assert s[i] == '(', s[i:]
    if s[i + 1] == '*':
        inner, j = _place(s, i + 2)
        assert s[j] == ')', s[j:]
        return Place(inner.local, inner.proj + (('deref',),)), j + 1
    inner, j = _place(s, i + 1)
    # postfix index inside parens
    while s[j] == '[':
        k = match_close(s, j)
        innertxt = s[j + 1:k]
        m = re.match(r'^_(\d+)$', innertxt)
        if m:
            inner = Place(inner.local, inner.proj + (('index', int(m.group(1))),))
        else:
            m = re.match(r'^(-?)(\d+) of (\d+)$', innertxt)
            inner = Place(inner.local, inner.proj + (('cindex', int(m.group(2)), bool(m.group(1))),))
        j = k + 1
    if s[j] == '.':
        m = re.match(r'\.(\d+): ', s[j:])
        assert m, s[j:j + 40]
        # skip the type up to the matching ')' of the '(' at i
        k = match_close(s, i)
        return Place(inner.local, inner.proj + (('field', int(m.group(1))),)), k + 1
    if s.startswith(' as ', j):
        k = match_close(s, i)
        name = s[j + 4:k]
        return Place(inner.local, inner.proj + (('downcast', name),)), k + 1
    raise ValueError('place: ' + s[i:i + 60])


class Op:
    __slots__ = ('kind', 'place', 'const')

    def __init__(self, kind, place=None, const=None):
        self.kind = kind      # 'copy' | 'move' | 'const'
        self.place = place
        self.const = const    # raw text after 'const '

    def __repr__(self):
        return f'{self.kind} {self.place if self.place else self.const}'


def parse_operand(s):
    s = s.strip()
    if s.startswith('no_retag '):
        s = s[len('no_retag '):]
    if s.startswith('copy '):
        return Op('copy', parse_place(s[5:]))
    if s.startswith('move '):
        return Op('move', parse_place(s[5:]))
    if s.startswith('const '):
        return Op('const', const=s[6:].strip())
    # a bare path: a zero-sized fn item used as a value
    return Op('const', const='fnitem ' + s)


BINOPS = {'Eq', 'Ne', 'Lt', 'Le', 'Gt', 'Ge', 'Add', 'Sub', 'Mul', 'Div', 'Rem', 'BitAnd', 'BitOr', 'BitXor', 'Shl', 'Shr',
          'AddWithOverflow', 'SubWithOverflow', 'MulWithOverflow', 'AddUnchecked', 'SubUnchecked', 'Offset', 'Cmp'}
UNOPS = {'Not', 'Neg', 'PtrMetadata'}


class Rv:
    __slots__ = ('kind', 'a', 'b', 'c')

    def __init__(self, kind, a=None, b=None, c=None):
        self.kind = kind
        self.a = a
        self.b = b
        self.c = c

    def __repr__(self):
        return f'Rv({self.kind}, {self.a}, {self.b}, {self.c})'


def parse_rvalue(s):
    s = s.strip()
    if s.startswith('&raw const ') or s.startswith('&raw mut '):
        return Rv('ref', parse_place(s.split(' ', 2)[2]), 'raw')
    if s.startswith('&mut '):
        return Rv('ref', parse_place(s[5:]), 'mut')
    if s.startswith('&'):
        t = s[1:].strip()
        # `&'a place` does not occur in MIR
        return Rv('ref', parse_place(t), 'shr')
    if s.startswith('discriminant('):
        return Rv('discr', parse_place(s[len('discriminant('):-1]))
    if s.startswith('Len('):
        return Rv('len', parse_place(s[4:-1]))
    m = re.match(r'^([A-Za-z]+)\((.*)\)$', s)
    if m and m.group(1) in BINOPS:
        a, b = split_top(m.group(2))
        return Rv('binop', m.group(1), parse_operand(a), parse_operand(b))
    if m and m.group(1) in UNOPS:
        return Rv('unop', m.group(1), parse_operand(m.group(2)))
    if s.startswith(('copy ', 'move ', 'const ', 'no_retag ')):
        # operand or cast
        # cast: `<operand> as <type> (<CastKind>)`
        mm = re.match(r'^(.*) as (.*) \(([A-Za-z]+(?:\(.*\))?)\)$', s)
        if mm and not s.startswith('const "'):
            try:
                op = parse_operand(mm.group(1))
                return Rv('cast', op, mm.group(2), mm.group(3))
            except Exception:
                pass
        return Rv('use', parse_operand(s))
    # fn item cast: `path as fn(..) (PointerCoercion(ReifyFnPointer..))`
    mm = re.match(r'^(.*) as (fn\(.*) \((PointerCoercion\(.*\))\)$', s)
    if mm:
        return Rv('fnptr', mm.group(1).strip())
    # aggregates
    if s.startswith('('):
        j = match_close(s, 0)
        assert j == len(s) - 1, s
        return Rv('tuple', [parse_operand(x) for x in split_top(s[1:-1])])
    if s.startswith('['):
        inner = s[1:-1]
        parts = split_top(inner, ';')
        if len(parts) == 2:
            return Rv('repeat', parse_operand(parts[0]), parts[1])
        return Rv('array', [parse_operand(x) for x in split_top(inner)])
    if s.startswith('{closure@') or s.startswith('{coroutine@'):
        j = match_close(s, 0)
        key = s[:j + 1]
        rest = s[j + 1:].strip()
        fields = []
        if rest.startswith('{'):
            for f in split_top(rest[1:-1]):
                nm, v = f.split(':', 1)
                fields.append((nm.strip(), parse_operand(v)))
        return Rv('closure', key, fields)
    # Path { f: op, .. } | Path(op, ..) | Path
    # find the end of the path (first top-level ' {' or '(' not inside <>)
    i = 0
    n = len(s)
    depth = 0
    while i < n:
        c = s[i]
        if c == '<':
            depth += 1
        elif c == '>' and not (i > 0 and s[i - 1] in '-='):
            depth -= 1
        elif depth == 0 and c in '({':
            break
        elif c == '(' or c == '[':
            # inside generics: skip balanced
            i = match_close(s, i)
        i += 1
    path = s[:i].strip()
    rest = s[i:].strip()
    if not rest:
        return Rv('adt', path, [], 'unit')
    if rest.startswith('{'):
        fields = []
        for f in split_top(rest[1:-1]):
            nm, v = f.split(':', 1)
            fields.append((nm.strip(), parse_operand(v)))
        return Rv('adt', path, fields, 'named')
    if rest.startswith('('):
        return Rv('adt', path, [(None, parse_operand(x)) for x in split_top(rest[1:-1])], 'tuple')
    raise ValueError('rvalue: ' + s[:100])


# ---------------------------------------------------------------------------
# statements / terminators / bodies
# ---------------------------------------------------------------------------

class Body:
    def __init__(self, name, header):
        self.name = name
        self.header = header
        self.nargs = 0
        self.arg_types = []
        self.local_types = {}
        self.blocks = {}     # id -> (stmts, term)
        self.ret_type = ''
        self.debug = {}      # local -> debug name


def parse_args(argtxt):
    out = []
    for a in split_top(argtxt):
        m = re.match(r'^_(\d+): (.*)$', a, flags=re.S)
        out.append((int(m.group(1)), m.group(2)))
    return out


def parse_stmt(line):
    """-> ('assign', place, rv) | ('nop',) | ('setdiscr', place, idx)"""
    if line.startswith(('StorageLive', 'StorageDead', 'nop', 'FakeRead', 'AscribeUserType', 'Coverage', 'PlaceMention', 'ConstEvalCounter', 'Retag', 'BackwardIncompatibleDropHint')):
        return ('nop',)
    m = re.match(r'^discriminant\((.*)\) = (\d+)$', line)
    if m:
        return ('setdiscr', parse_place(m.group(1)), int(m.group(2)))
    if line.startswith('Deinit('):
        return ('nop',)
    if line.startswith('assume('):
        return ('nop',)
    # assignment: split at first top-level ' = '
    i = find_assign(line)
    return ('assign', parse_place(line[:i]), parse_rvalue(line[i + 3:]))


def find_assign(line):
    depth = 0
    i = 0
    n = len(line)
    while i < n:
        c = line[i]
        if c == '"':
            i = skip_string(line, i)
            continue
        if c in '([{':
            depth += 1
        elif c in ')]}':
            depth -= 1
        elif depth == 0 and line.startswith(' = ', i):
            return i
        i += 1
    raise ValueError('no assignment in ' + line[:80])


def parse_targets(t):
    """`[return: bb1, unwind: bb76]` | `[return: bb1, unwind continue]` | `unwind continue` -> dict"""
    d = {}
    t = t.strip()
    if t.startswith('['):
        for part in split_top(t[1:-1]):
            m = re.match(r'^(-?\d+)(?:_\w+)?: bb(\d+)$', part)
            if m:
                d[int(m.group(1))] = int(m.group(2))
            else:
                m = re.match(r'^(\w+): bb(\d+)$', part)
                if m:
                    d[m.group(1)] = int(m.group(2))
    else:
        m = re.match(r'^(\w+): bb(\d+)$', t)
        if m:
            d[m.group(1)] = int(m.group(2))
    return d


def split_arrow(line):
    """split `X -> targets` at the last top-level ' -> ' that introduces the target list"""
    idx = line.rfind(' -> ')
    while idx != -1:
        tail = line[idx + 4:].strip()
        if tail.startswith('[') or tail.startswith('unwind') or re.match(r'^bb\d+$', tail) or tail.startswith('[return'):
            return line[:idx], tail
        idx = line.rfind(' -> ', 0, idx)
    return line, None


def parse_callee_and_args(s):
    """`callee(args)` where callee may contain generics/parens -> (callee text, [operands])"""
    s = s.strip()
    assert s.endswith(')'), s
    # find the matching '(' of the final ')'
    depth = 0
    i = len(s) - 1
    # scan backwards, string-aware is hard; scan forward collecting top-level paren spans instead
    spans = []
    j = 0
    n = len(s)
    d = 0
    ang = 0
    start = None
    while j < n:
        c = s[j]
        if c == '"':
            j = skip_string(s, j)
            continue
        if c == "'":
            m = re.match(r"'(\\.|[^\\'])'", s[j:])
            if m:
                j += m.end()
                continue
        if c == '<':
            ang += 1
        elif c == '>' and not (j > 0 and s[j - 1] in '-='):
            ang -= 1
        elif c in '([{':
            if d == 0 and ang == 0 and c == '(':
                start = j
            d += 1
        elif c in ')]}':
            d -= 1
            if d == 0 and ang == 0 and c == ')' and start is not None:
                spans.append((start, j))
                start = None
        j += 1
    a, b = spans[-1]
    assert b == n - 1, s
    callee = s[:a].strip()
    args = [parse_operand(x) for x in split_top(s[a + 1:b])]
    return callee, args


def parse_term(line):
    if line == 'return':
        return ('return',)
    if line == 'unreachable':
        return ('unreachable',)
    if line.startswith('resume') or line.startswith('abort') or line.startswith('terminate') or line.startswith('unwind'):
        return ('resume',)
    m = re.match(r'^goto -> bb(\d+)$', line)
    if m:
        return ('goto', int(m.group(1)))
    if line.startswith('switchInt('):
        head, tail = split_arrow(line)
        op = parse_operand(head[len('switchInt('):-1])
        return ('switch', op, parse_targets(tail))
    if line.startswith('drop('):
        head, tail = split_arrow(line)
        return ('drop', parse_place(head[5:-1]), parse_targets(tail))
    if line.startswith('assert('):
        head, tail = split_arrow(line)
        inner = split_top(head[len('assert('):-1])
        cond = inner[0]
        expected = True
        if cond.startswith('!'):
            expected = False
            cond = cond[1:]
        return ('assert', parse_operand(cond), expected, inner[1] if len(inner) > 1 else '', parse_targets(tail))
    if line.startswith('falseEdge') or line.startswith('falseUnwind'):
        m = re.search(r'real: bb(\d+)', line)
        return ('goto', int(m.group(1)))
    # call
    head, tail = split_arrow(line)
    targets = parse_targets(tail) if tail else {}
    try:
        i = find_assign(head)
        dest = parse_place(head[:i])
        call = head[i + 3:]
    except ValueError:
        dest = None
        call = head
    callee, args = parse_callee_and_args(call)
    return ('call', dest, callee, args, targets)


HEADER_RE = re.compile(r'^(fn|const|static(?: mut)?|promoted) ')


def parse_mir(text):
    """-> dict name -> Body"""
    bodies = {}
    lines = text.split('\n')
    i = 0
    n = len(lines)
    while i < n:
        line = lines[i]
        if line.startswith('fn ') and line.rstrip().endswith('{'):
            hdr = line.rstrip()[3:-1].rstrip()
            # name(args) -> ret
            a = hdr.index('(_') if '(_' in hdr else hdr.index('()')
            # the argument list starts at the last top-level '(' before ' -> ' ... use: name has no '(_'
            name = hdr[:a]
            j = match_close(hdr, a)
            args = parse_args(hdr[a + 1:j])
            ret = hdr[j + 1:].strip()
            if ret.startswith('->'):
                ret = ret[2:].strip()
            b = Body(name, hdr)
            b.nargs = len(args)
            b.arg_types = [t for _, t in args]
            b.ret_type = ret
            i = parse_body(lines, i + 1, b)
            # duplicate names (ctor shims printed twice): keep the first
            bodies.setdefault(name, b)
            continue
        m = re.match(r'^const (.*?(?:promoted\[\d+\]|\{constant#\d+\})): (.*) = \{$', line) or re.match(r'^const (.*?): (.*) = \{$', line)
        if m:
            b = Body(m.group(1), line)
            b.ret_type = m.group(2)
            i = parse_body(lines, i + 1, b)
            bodies.setdefault(b.name, b)
            continue
        m = re.match(r'^const (.*?(?:promoted\[\d+\]|\{constant#\d+\})): (.*) = const (.*);$', line) or re.match(r'^const (.*?): (.*) = const (.*);$', line)
        if m:
            b = Body(m.group(1), line)
            b.ret_type = m.group(2)
            b.blocks[0] = ([('assign', Place(0, ()), Rv('use', Op('const', const=m.group(3))))], ('return',))
            bodies.setdefault(b.name, b)
        i += 1
    fix_closure_captures(bodies, text)
    return bodies


def fix_closure_captures(bodies, text):
    """rustc's pretty printer names closure operands by upvar *variable* and drops operands when several captured places
    share a variable (disjoint captures `self.a`, `self.b`): `{closure} { self: copy _106 }` although two places are
    captured.  The closure body says how many captures there are (highest `_1.N` / `(*_1).N` it projects); the capture
    temporaries are assigned, in capture order, by the statements immediately before the aggregate."""
    ncap = {}
    for name, b in bodies.items():
        if '{closure#' not in name or not b.arg_types:
            continue
        m = re.search(r'\{closure@[^}]*\}', b.arg_types[0])
        if not m:
            continue
        key = m.group(0)
        # body text
        start = text.find('fn ' + name + '(')
        if start < 0:
            continue
        end = text.find('\n}\n', start)
        chunk = text[start:end]
        idx = [int(x) for x in re.findall(r'\(\*_1\)\.(\d+): |\(_1\.(\d+): ', chunk) for x in x if x != '']
        ncap[key] = (max(idx) + 1) if idx else 0
    for b in bodies.values():
        for bid, (stmts, term) in b.blocks.items():
            for k, st in enumerate(stmts):
                if st[0] != 'assign' or st[2].kind != 'closure':
                    continue
                rv = st[2]
                want = ncap.get(rv.a)
                if want is None or want <= len(rv.b):
                    continue
                prev = stmts[max(0, k - want):k]
                if len(prev) == want and all(p[0] == 'assign' and not p[1].proj for p in prev):
                    rv.b = [(f'capture{q}', Op('move', Place(p[1].local, ()))) for q, p in enumerate(prev)]


def parse_body(lines, i, b):
    n = len(lines)
    cur = None
    while i < n:
        raw = lines[i]
        line = raw.strip()
        if raw.startswith('}'):
            return i + 1
        if not line or line.startswith('//'):
            i += 1
            continue
        m = re.match(r'^let (?:mut )?_(\d+): (.*);$', line)
        if m and cur is None:
            b.local_types[int(m.group(1))] = m.group(2)
            i += 1
            continue
        m = re.match(r'^debug (\S+) => (.*);$', line)
        if m:
            mm = re.match(r'^_(\d+)$', m.group(2))
            if mm:
                b.debug[int(mm.group(1))] = m.group(1)
            i += 1
            continue
        if line.startswith('scope ') or line == '}':
            i += 1
            continue
        m = re.match(r'^bb(\d+)(?: \(cleanup\))?: \{$', line)
        if m:
            cur = int(m.group(1))
            stmts = []
            i += 1
            while True:
                l2 = lines[i].strip()
                if l2 == '}':
                    break
                # statements may span several lines only for string constants containing newlines: join until ';' at end
                while not l2.endswith(';'):
                    i += 1
                    l2 += '\n' + lines[i].strip()
                stmts.append(l2[:-1])
                i += 1
            # last one is the terminator
            term_txt = stmts.pop()
            try:
                term = parse_term(term_txt)
                ps = [parse_stmt(s) for s in stmts]
            except Exception as e:
                raise ValueError(f'{b.name} bb{cur}: {e}\n  {term_txt}\n  ' + '\n  '.join(stmts))
            b.blocks[cur] = (ps, term)
            i += 1
            continue
        i += 1
    return i


def parse_allocs(text):
    return {}
