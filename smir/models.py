"""Environment models: everything outside entrait_macros (proc-macro2, quote, syn data and
parsing back end, std).  Each model states what the real callee is documented to do; the
table is emitted into evidence.  An unmodelled callee ends the path as UNSUPPORTED."""

import re
import z3
from .values import *
from .resolve import basename, parse_callee
from . import synprint

MODELS = {}


def model(*keys):
    def deco(fn):
        for k in keys:
            MODELS[k] = fn
        return fn
    return deco


class Models:
    def __init__(self):
        self.table = MODELS

    def key_candidates(self, c):
        ks = []
        if c.trait:
            tb = basename(c.trait)
            st = basename(c.self_ty) if c.self_ty else ''
            ks.append(f'<{st} as {tb}>::{c.method}')
            ks.append(f'{tb}::{c.method}')
            ks.append(c.method)
        elif c.self_ty:
            st = basename(c.self_ty)
            ks.append(f'{st}::{c.method}')
        else:
            if c.segs:
                ks.append(f'{c.segs[-1]}::{c.method}')
                if len(c.segs) >= 2:
                    ks.append(f'{c.segs[-2]}::{c.segs[-1]}::{c.method}')
            ks.append(c.method)
        return ks

    def has(self, c):
        return any(k in self.table for k in self.key_candidates(c))

    def call(self, ex, c, args):
        # impure primitives first: a generic model keyed by the bare method name (`iter`, `values`, ..) must never stand in for one
        imp = impure_primitive(c.text)
        if imp:
            ex.notes.setdefault('impure', []).append(f'{imp}: {c.text[:160]}')
            if imp == 'iteration over a hash-ordered collection' and not getattr(ex.prog, 'strict_impure', True) and args and isinstance(deref(args[0]), Iter):
                imp = None   # an adaptor on an iterator that was already taken in insertion order: ordinary model below
            elif imp == 'iteration over a hash-ordered collection' and not getattr(ex.prog, 'strict_impure', True) and args and isinstance(deref(args[0]), SetObj):
                # outside C20 a HashSet is walked in insertion order (one of the orders the real program can take); every verdict
                # reached this way is replayed against the real macro, so an order-dependent outcome shows up as a replay mismatch
                t_ = deref(args[0])
                return Iter('list', t_.items, 'val' if c.method.startswith('into_') or c.method == 'drain' else 'ref')
            if imp:
                raise Unsupported(f'IMPURE primitive reached ({imp}): `{c.text[:200]}`')
        for k in self.key_candidates(c):
            fn = self.table.get(k)
            if fn:
                ex.models_used.add(k)
                return fn(ex, c, args)
        raise Unsupported(f'no body and no model for callee `{c.text}` (keys {self.key_candidates(c)})')


IMPURE_PATTERNS = [
    (r'\bstd::env::|\benv::var', 'process environment'),
    (r'\bstd::time::|\bInstant::now|\bSystemTime::', 'clock'),
    (r'\bstd::fs::|\bFile::', 'file system'),
    (r'\bAtomic(Bool|Usize|U\d+|I\d+|Isize|Ptr)?\b.*::(load|store|swap|fetch_\w+|compare_exchange\w*)\b', 'atomic in a static (state shared between invocations)'),
    (r'\bLocalKey\b|thread_local', 'thread-local state'),
    (r'\b(OnceLock|OnceCell|LazyLock|Mutex|RwLock)\b', 'lazily initialised / locked shared state'),
    (r'\bRandomState\b|\brandom\b', 'randomness'),
    (r'\bHash(Map|Set)(::)?<.*>::(iter|iter_mut|into_iter|keys|values|values_mut|into_values|into_keys|drain)\b|hash_(map|set)::\w*(Iter|Values|Keys|Drain)', 'iteration over a hash-ordered collection'),
    (r'\bprocess::id|\bthread::current', 'process / thread identity'),
]


def impure_primitive(text):
    for rx, what in IMPURE_PATTERNS:
        if re.search(rx, text):
            return what
    return None


def deref(v):
    while isinstance(v, Ptr):
        v = v.get()
    return v


def deref_force(ex, v):
    """follow pointers; resolve a lazy node at the end in place"""
    while isinstance(v, Ptr):
        inner = v.get()
        if isinstance(inner, Sym):
            inner = ex.force_slot(v.cont, v.idx)
        v = inner
    return ex.force(v)


def ts_of(v):
    t = deref(v)
    if not isinstance(t, TS):
        raise Unsupported(f'expected TokenStream, got {type(t).__name__}')
    return t


# ===========================================================================
# std: Try / Option / Result / Default / Clone / Deref / Box / Vec / iterators
# ===========================================================================

@model('Try::branch')
def _try_branch(ex, c, a):
    v = ex.force(a[0])
    if v.ty == 'Result':
        if v.variant == 'Ok':
            return Obj('ControlFlow', 'Continue', [v.fields[0]])
        return Obj('ControlFlow', 'Break', [Obj('Result', 'Err', [v.fields[0]])])
    if v.ty == 'Option':
        if v.variant == 'Some':
            return Obj('ControlFlow', 'Continue', [v.fields[0]])
        return Obj('ControlFlow', 'Break', [NONE()])
    raise Unsupported('Try::branch on ' + v.ty)


@model('FromResidual::from_residual')
def _from_residual(ex, c, a):
    v = a[0]
    if isinstance(v, Obj) and v.ty == 'Result':
        return Obj('Result', 'Err', [v.fields[0]])
    if isinstance(v, Obj) and v.ty == 'Option':
        return NONE()
    raise Unsupported(f'from_residual of {v!r:.80}')


@model('Clone::clone')
def _clone(ex, c, a):
    v = deref(a[0])
    return clone_val(v)


@model('Default::default')
def _default(ex, c, a):
    st = basename(c.self_ty)
    full = c.self_ty
    if st in synprint.TOKENS and st not in ('Box',):
        return Tok(st)
    if st in ('Paren', 'Brace', 'Bracket'):
        return Tok(st)
    if st == 'Punctuated':
        return Punct([], punct_sep(full))
    if st == 'Vec':
        return VecObj([])
    if st == 'HashSet':
        return SetObj([])
    if st == 'Option':
        return NONE()
    if st == 'TokenStream':
        return TS()
    if st == 'Generics':
        return ex.prog.ast.generics([], None)
    raise Unsupported('Default::default for ' + full)


def punct_sep(text):
    m = re.search(r'token::(\w+)>?\s*>?$', text.strip().rstrip('>').strip() + '>')
    for name in ('Comma', 'Plus', 'PathSep', 'Or', 'Semi'):
        if re.search(r'\b' + name + r'\b', text):
            return name
    return 'Comma'


@model('Deref::deref', 'DerefMut::deref_mut', 'AsRef::as_ref', 'Borrow::borrow', 'AsMut::as_mut')
def _deref(ex, c, a):
    p = a[0]
    v = p.get() if isinstance(p, Ptr) else p
    # blanket impls `impl AsRef<U> for &T / &mut T`, `impl Deref for &T`: look through the extra reference level(s)
    while isinstance(v, Ptr) and c.method in ('as_ref', 'as_mut', 'borrow', 'borrow_mut') and (c.self_ty or '').lstrip().startswith('&'):
        p = v
        v = p.get()
    if isinstance(v, Sym):
        v = ex.force_slot(p.cont, p.idx)
    if isinstance(v, Obj) and v.ty == 'Box':
        return Ptr(v.fields, 0)
    if isinstance(v, str) or isinstance(v, z3.ExprRef):
        return v  # &String -> &str : strings are immutable values here
    # &Vec<T> -> &[T] : same storage
    return p


@model('Box::new')
def _box_new(ex, c, a):
    return Obj('Box', None, [a[0]])


@model('must_use', 'identity', 'Into::into', 'From::from')
def _identity(ex, c, a):
    st = basename(c.self_ty) if c.self_ty else ''
    if c.method in ('from', 'into') and st == 'String':
        return a[0]
    if c.method in ('from', 'into') and 'TokenStream' in (c.self_ty or ''):
        return a[0]
    if c.method in ('must_use', 'identity'):
        return a[0]
    if c.method in ('from', 'into'):
        return a[0]
    raise Unsupported(c.text)


@model('swap')
def _swap(ex, c, a):
    x, y = a
    vx, vy = x.get(), y.get()
    x.set(vy)
    y.set(vx)
    return UNIT


@model('replace')
def _replace(ex, c, a):
    old = a[0].get()
    a[0].set(a[1])
    return old


@model('take')
def _take(ex, c, a):
    p = a[0]
    old = p.get()
    if isinstance(old, Obj) and old.ty == 'Option':
        p.set(NONE())
        return old
    raise Unsupported('mem::take of ' + type(old).__name__)


# ---- Option / Result -------------------------------------------------------

def opt_of(ex, v):
    if isinstance(v, Ptr):
        return deref_force(ex, v)
    return ex.force(v)


@model('Option::is_some', 'Option::is_none', 'Result::is_ok', 'Result::is_err')
def _is_some(ex, c, a):
    v = opt_of(ex, a[0])
    return {'is_some': v.variant == 'Some', 'is_none': v.variant == 'None',
            'is_ok': v.variant == 'Ok', 'is_err': v.variant == 'Err'}[c.method]


@model('Option::as_ref', 'Option::as_mut')
def _opt_as_ref(ex, c, a):
    v = opt_of(ex, a[0])
    if v.variant == 'Some':
        return Some(Ptr(v.fields, 0))
    return NONE()


@model('Option::as_deref')
def _opt_as_deref(ex, c, a):
    v = opt_of(ex, a[0])
    if v.variant == 'Some':
        return Some(v.fields[0])
    return NONE()


@model('Option::map')
def _opt_map(ex, c, a):
    v = ex.force(a[0])
    if v.variant == 'Some':
        return Some(ex.call_value(a[1], [v.fields[0]]))
    return NONE()


@model('Option::and_then')
def _opt_and_then(ex, c, a):
    v = ex.force(a[0])
    if v.variant == 'Some':
        return ex.call_value(a[1], [v.fields[0]])
    return NONE()


@model('Option::unwrap_or')
def _opt_unwrap_or(ex, c, a):
    v = ex.force(a[0])
    return v.fields[0] if v.variant == 'Some' else a[1]


@model('Option::unwrap_or_default')
def _opt_unwrap_or_default(ex, c, a):
    v = ex.force(a[0])
    if v.variant == 'Some':
        return v.fields[0]
    full = c.text
    if 'Punctuated' in full:
        return Punct([], punct_sep(full))
    raise Unsupported('unwrap_or_default: ' + full)


@model('Option::unwrap_or_else')
def _opt_unwrap_or_else(ex, c, a):
    v = ex.force(a[0])
    return v.fields[0] if v.variant == 'Some' else ex.call_value(a[1], [])


@model('Option::or')
def _opt_or(ex, c, a):
    v = ex.force(a[0])
    return v if v.variant == 'Some' else a[1]


@model('Option::or_else')
def _opt_or_else(ex, c, a):
    v = ex.force(a[0])
    return v if v.variant == 'Some' else ex.call_value(a[1], [])


@model('Option::unwrap', 'Option::expect')
def _opt_unwrap(ex, c, a):
    v = ex.force(a[0])
    if v.variant == 'Some':
        return v.fields[0]
    raise PanicExc('Option::unwrap on None', c.text)


@model('Result::unwrap', 'Result::expect')
def _res_unwrap(ex, c, a):
    v = ex.force(a[0])
    if v.variant == 'Ok':
        return v.fields[0]
    raise PanicExc('Result::unwrap on Err', c.text)


@model('Result::is_ok')
def _res_is_ok(ex, c, a):
    v = opt_of(ex, a[0])
    return v.variant == 'Ok'


@model('Option::get_or_insert')
def _get_or_insert(ex, c, a):
    p = a[0]
    v = deref_force(ex, p)
    if v.variant == 'None':
        v.variant = 'Some'
        v.fields = [a[1]]
    return Ptr(v.fields, 0)


@model('Option::cloned', 'Option::copied')
def _opt_cloned(ex, c, a):
    v = ex.force(a[0])
    if v.variant == 'Some':
        return Some(clone_val(deref(v.fields[0])))
    return NONE()


@model('Option::is_some_and')
def _opt_is_some_and(ex, c, a):
    v = ex.force(a[0])
    if v.variant == 'Some':
        return ex.call_value(a[1], [v.fields[0]])
    return False


# ---- panics ----------------------------------------------------------------

@model('panic_fmt', 'panic', 'panic_display', 'panic_str', 'panic_explicit', 'unreachable_display', 'begin_panic',
       'expect_failed', 'unwrap_failed', 'panic_nounwind', 'panic_cold_explicit')
def _panic(ex, c, a):
    msg = ''
    for x in a:
        x = deref(x)
        if isinstance(x, str):
            msg = x
        elif isinstance(x, Obj) and x.ty == 'Arguments':
            msg = render_arguments(x)
    raise PanicExc(c.method, msg)


# ---- fmt ---------------------------------------------------------------------

def render_arguments(x):
    parts = x.fields[0]
    out = ''
    for p in parts:
        if isinstance(p, z3.ExprRef):
            return '<symbolic message>'
        out += p if isinstance(p, str) else str(p)
    return out


@model('Arguments::from_str', 'Arguments::new_const')
def _args_from_str(ex, c, a):
    v = deref(a[0])
    if isinstance(v, VecObj):
        return Obj('Arguments', None, [[deref(x) for x in v.items]])
    return Obj('Arguments', None, [[v]])


@model('Argument::new_display', 'Argument::new_debug')
def _arg_new_display(ex, c, a):
    v = deref(a[0])
    while isinstance(v, Obj) and v.ty == 'IdentFragmentAdapter':
        v = deref(v.fields[0])
    if isinstance(v, Ident):
        return ident_string(v)
    if isinstance(v, (str, int, z3.ExprRef)):
        return v
    if isinstance(v, TS):
        return ('tokens', list(v.toks))
    raise Unsupported('Display of ' + type(v).__name__)


def ident_string(i):
    if i.raw:
        if isinstance(i.name, str):
            return 'r#' + i.name
        return z3.Concat(z3.StringVal('r#'), i.name)
    return i.name


@model('Arguments::new')
def _args_new(ex, c, a):
    """core::fmt::Arguments::new::<N, M>(template bytes, &[Argument; M]).  Template encoding (rustc 1.9x):
    byte < 0x80: literal piece of that many bytes follows; 0xc0: next argument; 0x00: end."""
    tmpl = a[0]
    argv = deref(a[1]).items
    assert isinstance(tmpl, tuple) and tmpl[0] == 'bytes', tmpl
    raw = rust_bytes(tmpl[1])
    parts = []
    i = 0
    ai = 0
    while i < len(raw):
        b = raw[i]
        if b == 0:
            break
        if b == 0xc0:
            parts.append(argv[ai])
            ai += 1
            i += 1
        elif b < 0x80:
            parts.append(bytes(raw[i + 1:i + 1 + b]).decode('utf-8'))
            i += 1 + b
        else:
            raise Unsupported(f'fmt template byte {b:#x} (format spec other than plain {{}})')
    return Obj('Arguments', None, [parts])


def rust_bytes(lit):
    s = lit[1:-1]
    out = []
    i = 0
    while i < len(s):
        ch = s[i]
        if ch == '\\':
            d = s[i + 1]
            if d == 'x':
                out.append(int(s[i + 2:i + 4], 16)); i += 4
            elif d == 'n':
                out.append(10); i += 2
            elif d == 't':
                out.append(9); i += 2
            elif d == 'r':
                out.append(13); i += 2
            elif d == '0':
                out.append(0); i += 2
            else:
                out.append(ord(d)); i += 2
        else:
            out += list(ch.encode('utf-8')); i += 1
    return out


def concat_parts(parts):
    if all(isinstance(p, (str, int)) for p in parts):
        return ''.join(str(p) for p in parts)
    terms = []
    for p in parts:
        if isinstance(p, z3.ExprRef):
            terms.append(p)
        elif isinstance(p, int):
            terms.append(z3.StringVal(str(p)))
        elif isinstance(p, tuple):
            raise Unsupported('token stream inside a symbolic format string')
        else:
            terms.append(z3.StringVal(p))
    return z3.Concat(*terms) if len(terms) > 1 else terms[0]


@model('format', 'fmt::format')
def _format(ex, c, a):
    x = a[0]
    return concat_parts(x.fields[0])


@model('ToString::to_string')
def _to_string(ex, c, a):
    v = deref(a[0])
    if isinstance(v, Ident):
        return ident_string(v)
    if isinstance(v, (str, z3.ExprRef)):
        return v
    if isinstance(v, Obj) and v.ty == 'Lifetime':
        nm = v.fields[1].name
        return ("'" + nm) if isinstance(nm, str) else z3.Concat(z3.StringVal("'"), nm)
    if isinstance(v, TS):
        # the Display form of a token stream: tokens separated by single spaces (what proc_macro2's fallback prints); only for
        # streams without solver-valued spellings
        P = synprint.Printer(resolve=lambda s_: ex.force(s_))
        flat = P.flat(v.toks)

        def text(toks):
            out = []
            for t in toks:
                if t[0] == 'G':
                    close = {'(': ')', '[': ']', '{': '}'}.get(t[1], '')
                    out.append(t[1] + ' ' + text(t[2]) + (' ' if t[2] else '') + close)
                elif t[0] == 'LT':
                    out.append("'" + str(t[1]))
                elif isinstance(t[1], str):
                    out.append(t[1])
                else:
                    raise Unsupported('to_string of a token stream with solver-valued spellings')
            return ' '.join(out)
        return text(flat)
    raise Unsupported('to_string of ' + type(v).__name__)


@model('String::as_str', 'String::as_ref', 'str::as_ref')
def _as_str(ex, c, a):
    return deref(a[0])


@model('String::clone')
def _string_clone(ex, c, a):
    return deref(a[0])


def str_eq(x, y):
    x, y = deref(x), deref(y)
    if isinstance(x, Ident):
        x = ident_string(x)
    if isinstance(y, Ident):
        y = ident_string(y)
    if isinstance(x, str) and isinstance(y, str):
        return x == y
    sx = x if isinstance(x, z3.ExprRef) else z3.StringVal(x)
    sy = y if isinstance(y, z3.ExprRef) else z3.StringVal(y)
    return sx == sy


@model('PartialEq::eq')
def _eq(ex, c, a):
    x, y = deref(a[0]), deref(a[1])
    if isinstance(x, (str, Ident)) or isinstance(y, (str, Ident)) or (isinstance(x, z3.ExprRef) and z3.is_string(x)):
        return str_eq(x, y)
    if isinstance(x, Obj) and x.ty == 'Lifetime':
        return str_eq(x.fields[1], y.fields[1])
    if isinstance(x, (int, bool)) and isinstance(y, (int, bool)):
        return x == y
    if isinstance(x, Obj) and isinstance(y, Obj) and x.ty == y.ty and not x.fields and not y.fields:
        return x.variant == y.variant
    if isinstance(x, tuple) and isinstance(y, tuple):
        return x == y
    raise Unsupported(f'PartialEq::eq on {type(x).__name__} / {type(y).__name__} ({c.text})')


@model('PartialEq::ne')
def _ne(ex, c, a):
    r = _eq(ex, c, a)
    return (not r) if isinstance(r, bool) else z3.Not(r)


@model('str::chars')
def _chars(ex, c, a):
    return Iter('chars', deref(a[0]))


@model('char::is_lowercase')
def _is_lowercase(ex, c, a):
    ch = a[0]
    if isinstance(ch, str):
        return ch.islower()
    # symbolic first character: ASCII model (non-ASCII identifiers are outside the bound)
    return z3.And(z3.StrToCode(ch) >= 97, z3.StrToCode(ch) <= 122)


# ---- Vec / slices ---------------------------------------------------------------

@model('Vec::new', 'Vec::with_capacity')
def _vec_new(ex, c, a):
    return VecObj([])


@model('Vec::push')
def _vec_push(ex, c, a):
    deref(a[0]).items.append(a[1])
    return UNIT


@model('Vec::len', 'slice::len', 'len', 'Punctuated::len')
def _len(ex, c, a):
    v = deref_force(ex, a[0])
    return len(v.items)


@model('Vec::is_empty', 'slice::is_empty', 'is_empty', 'Punctuated::is_empty')
def _is_empty(ex, c, a):
    v = deref_force(ex, a[0])
    if isinstance(v, TS):
        return len(v.toks) == 0
    return len(v.items) == 0


@model('Vec::extend', 'Extend::extend')
def _extend(ex, c, a):
    tgt = deref(a[0])
    it = into_iter(ex, a[1])
    while True:
        n = iter_next(ex, it)
        if n.variant == 'None':
            break
        if isinstance(tgt, TS):
            push_tt(tgt, n.fields[0])
        else:
            tgt.items.append(n.fields[0])
    return UNIT


@model('slice::iter', 'Vec::iter', 'Punctuated::iter', 'iter')
def _slice_iter(ex, c, a):
    v = deref_force(ex, a[0])
    return Iter('list', v.items, 'ref')


@model('slice::iter_mut', 'Vec::iter_mut', 'Punctuated::iter_mut', 'iter_mut')
def _slice_iter_mut(ex, c, a):
    v = deref_force(ex, a[0])
    return Iter('list', v.items, 'ref')


@model('slice::first', 'Punctuated::first', 'slice::last', 'Punctuated::last', 'first', 'last')
def _first(ex, c, a):
    v = deref_force(ex, a[0])
    if not v.items:
        return NONE()
    i = 0 if c.method == 'first' else len(v.items) - 1
    return Some(Ptr(v.items, i))


@model('Punctuated::first_mut', 'slice::first_mut', 'Punctuated::last_mut', 'first_mut', 'last_mut')
def _first_mut(ex, c, a):
    v = deref_force(ex, a[0])
    if not v.items:
        return NONE()
    i = 0 if c.method == 'first_mut' else len(v.items) - 1
    return Some(Ptr(v.items, i))


@model('into_vec', 'slice::to_vec', 'to_vec')
def _into_vec(ex, c, a):
    v = deref(a[0])
    if isinstance(v, Obj) and v.ty == 'Box':
        v = v.fields[0]
    return VecObj(list(v.items) if c.method == 'into_vec' else [clone_val(x) for x in v.items])


@model('box_new')
def _box_new2(ex, c, a):
    return Obj('Box', None, [a[0]])


@model('Box::new_uninit')
def _box_new_uninit(ex, c, a):
    # lowering of vec![..]: Box<MaybeUninit<[T; N]>>; MaybeUninit { uninit: (), value: ManuallyDrop<MaybeDangling<T>> }
    return Obj('Box', None, [Obj('MaybeUninit', None, [UNIT, Obj('ManuallyDrop', None, [Obj('MaybeDangling', None, [None])])])])


@model('box_assume_init_into_vec_unsafe')
def _box_into_vec(ex, c, a):
    arr = a[0].fields[0].fields[1].fields[0].fields[0]
    return VecObj(list(arr.items))


@model('Drop::drop', 'drop_in_place')
def _drop_noop(ex, c, a):
    return UNIT


# ---- iterators -------------------------------------------------------------------

def into_iter(ex, v):
    if isinstance(v, Iter):
        return v
    t = deref_force(ex, v) if isinstance(v, Ptr) else ex.force(v)
    if isinstance(t, Iter):
        return t
    if isinstance(t, (VecObj, Punct)):
        if isinstance(v, Ptr):
            return Iter('list', t.items, 'ref')
        return Iter('list', list(t.items), 'val')
    if isinstance(t, Obj) and t.ty == 'Range':
        return Iter('range', t.fields[0], t.fields[1])
    if isinstance(t, Obj) and t.ty == 'Option':
        return Iter('list', [t.fields[0]] if t.variant == 'Some' else [], 'val')
    if isinstance(t, TS):
        return Iter('list', list(t.toks), 'val')
    raise Unsupported('into_iter on ' + type(t).__name__ + (':' + t.ty if isinstance(t, Obj) else ''))


@model('IntoIterator::into_iter')
def _into_iter(ex, c, a):
    return into_iter(ex, a[0])


@model('once')
def _once(ex, c, a):
    return Iter('list', [a[0]], 'val')


def iter_next(ex, it):
    it = deref(it)
    k = it.kind
    if k == 'list':
        if it.pos >= len(it.a):
            return NONE()
        i = it.pos
        it.pos += 1
        if it.b == 'ref':
            if isinstance(it.a[i], Sym):
                pass  # stays lazy until inspected through the reference
            return Some(Ptr(it.a, i))
        return Some(it.a[i])
    if k == 'range':
        if it.pos + it.a >= it.b:
            return NONE()
        v = it.a + it.pos
        it.pos += 1
        return Some(v)
    if k == 'map':
        n = iter_next(ex, it.a)
        if n.variant == 'None':
            return n
        return Some(ex.call_value(it.b, [n.fields[0]]))
    if k == 'filter':
        while True:
            n = iter_next(ex, it.a)
            if n.variant == 'None':
                return n
            keep = ex.call_value(it.b, [new_cell(n.fields[0])])
            if ex.branch(keep, 'filter'):
                return n
    if k == 'filter_map':
        while True:
            n = iter_next(ex, it.a)
            if n.variant == 'None':
                return n
            r = ex.force(ex.call_value(it.b, [n.fields[0]]))
            if r.variant == 'Some':
                return r
    if k == 'enumerate':
        n = iter_next(ex, it.a)
        if n.variant == 'None':
            return n
        i = it.pos
        it.pos += 1
        return Some(Obj('tuple', None, [i, n.fields[0]]))
    if k in ('copied', 'cloned'):
        n = iter_next(ex, it.a)
        if n.variant == 'None':
            return n
        return Some(clone_val(deref(n.fields[0])))
    if k == 'chars':
        s = it.a
        if isinstance(s, str):
            if it.pos >= len(s):
                return NONE()
            ch = s[it.pos]
            it.pos += 1
            return Some(ch)
        # symbolic string: only the first character is ever asked for
        if it.pos > 0:
            raise Unsupported('chars() beyond the first character of a symbolic string')
        it.pos += 1
        if ex.branch(z3.Length(s) == 0, 'chars:empty'):
            return NONE()
        return Some(z3.SubString(s, 0, 1))
    if k == 'pairs':
        if it.pos >= len(it.a.items):
            return NONE()
        i = it.pos
        it.pos += 1
        last = i == len(it.a.items) - 1
        if last and not it.a.trailing:
            return Some(Obj('Pair', 'End', [Ptr(it.a.items, i)]))
        return Some(Obj('Pair', 'Punctuated', [Ptr(it.a.items, i), new_cell(Tok(it.a.sep))]))
    raise Unsupported('iterator kind ' + k)


@model('Iterator::next')
def _next(ex, c, a):
    return iter_next(ex, a[0])


@model('Iterator::map')
def _map(ex, c, a):
    return Iter('map', into_iter(ex, a[0]), a[1])


@model('Iterator::filter')
def _filter(ex, c, a):
    return Iter('filter', into_iter(ex, a[0]), a[1])


@model('Iterator::filter_map')
def _filter_map(ex, c, a):
    return Iter('filter_map', into_iter(ex, a[0]), a[1])


@model('Iterator::enumerate')
def _enumerate(ex, c, a):
    return Iter('enumerate', into_iter(ex, a[0]))


@model('Iterator::copied')
def _copied(ex, c, a):
    return Iter('copied', into_iter(ex, a[0]))


@model('Iterator::cloned')
def _cloned(ex, c, a):
    return Iter('cloned', into_iter(ex, a[0]))


@model('Iterator::any')
def _any(ex, c, a):
    it = into_iter(ex, a[0])
    while True:
        n = iter_next(ex, it)
        if n.variant == 'None':
            return False
        r = ex.call_value(a[1], [n.fields[0]])
        if ex.branch(r, 'any'):
            return True


@model('Iterator::all')
def _all(ex, c, a):
    it = into_iter(ex, a[0])
    while True:
        n = iter_next(ex, it)
        if n.variant == 'None':
            return True
        r = ex.call_value(a[1], [n.fields[0]])
        if not ex.branch(r, 'all'):
            return False


@model('Iterator::find_map')
def _find_map(ex, c, a):
    it = into_iter(ex, a[0])
    while True:
        n = iter_next(ex, it)
        if n.variant == 'None':
            return NONE()
        r = ex.force(ex.call_value(a[1], [n.fields[0]]))
        if r.variant == 'Some':
            return r


@model('Iterator::find')
def _find(ex, c, a):
    it = into_iter(ex, a[0])
    while True:
        n = iter_next(ex, it)
        if n.variant == 'None':
            return NONE()
        r = ex.call_value(a[1], [new_cell(n.fields[0])])
        if ex.branch(r, 'find'):
            return n


@model('Iterator::collect', 'FromIterator::from_iter')
def _collect(ex, c, a):
    it = into_iter(ex, a[0])
    target = c.generics or c.self_ty or ''
    items = []
    as_result = 'Result<' in target
    while True:
        n = iter_next(ex, it)
        if n.variant == 'None':
            break
        v = n.fields[0]
        if as_result:
            v = ex.force(v)
            if v.variant == 'Err':
                return Obj('Result', 'Err', [v.fields[0]])
            v = v.fields[0]
        items.append(v)
    if 'HashSet' in target:
        r = SetObj(items)
    elif 'String' in target and 'Vec' not in target:
        if all(isinstance(x, str) for x in items):
            r = ''.join(items)
        else:
            r = concat_parts(items)
    elif 'Punctuated' in target:
        r = Punct(items, punct_sep(target))
    elif 'TokenStream' in target and 'Vec' not in target:
        r = TS()
        for x in items:
            push_tt(r, x)
    else:
        r = VecObj(items)
    return Ok(r) if as_result else r


@model('HashSet::contains')
def _set_contains(ex, c, a):
    s = deref(a[0])
    x = deref(a[1])
    conds = [str_eq(x, y) for y in s.items]
    if all(isinstance(k, bool) for k in conds):
        return any(conds)
    return z3.Or([k if not isinstance(k, bool) else z3.BoolVal(k) for k in conds])


@model('HashSet::insert')
def _set_insert(ex, c, a):
    s = deref(a[0])
    s.items.append(a[1])
    return True


@model('HashSet::iter', 'HashSet::into_iter', 'HashSet::drain')
def _set_iter(ex, c, a):
    ex.notes.setdefault('impure', []).append('iteration over a HashSet (hash-order dependent): ' + c.text)
    raise Unsupported('iteration over a HashSet is deliberately not modelled (C20)')


# ===========================================================================
# proc-macro2 / quote
# ===========================================================================

@model('TokenStream::new')
def _ts_new(ex, c, a):
    return TS()


@model('Span::call_site', 'Span::mixed_site')
def _call_site(ex, c, a):
    return CALL_SITE


@model('Ident::new')
def _ident_new(ex, c, a):
    return Ident(deref(a[0]), a[1], 'macro')


@model('Ident::span')
def _ident_span(ex, c, a):
    return deref(a[0]).span


@model('Ident::set_span')
def _ident_set_span(ex, c, a):
    deref(a[0]).span = a[1]
    return UNIT


@model('mk_ident')
def _mk_ident(ex, c, a):
    # quote::__private::mk_ident(&str, Option<Span>)
    sp = a[1]
    return Ident(deref(a[0]), sp.fields[0] if sp.variant == 'Some' else CALL_SITE, 'macro')


@model('IdentFragment::span', 'IdentFragmentAdapter::span')
def _identfrag_span(ex, c, a):
    v = deref(a[0])
    while isinstance(v, Obj) and v.ty == 'IdentFragmentAdapter':
        v = deref(v.fields[0])
    if isinstance(v, Ident):
        return Some(v.span)
    return NONE()


@model('IdentFragmentAdapter')
def _identfrag_adapter(ex, c, a):
    return a[0]


@model('Lifetime::new')
def _lifetime_new(ex, c, a):
    s = deref(a[0])
    assert isinstance(s, str) and s.startswith("'")
    return Obj('Lifetime', None, [a[1], Ident(s[1:], a[1], 'macro')], ['apostrophe', 'ident'])


@model('LitBool::new')
def _litbool_new(ex, c, a):
    return Obj('LitBool', None, [a[0], a[1]], ['value', 'span'])


@model('LitBool::value')
def _litbool_value(ex, c, a):
    return deref(a[0]).fields[0]


@model('Spanned::span', 'span')
def _spanned_span(ex, c, a):
    v = deref(a[0])
    if isinstance(v, (Ident, Tok)):
        return v.span
    if isinstance(v, Sym):
        return Span(('input', v.key))
    return Span(('input-node', getattr(v, 'ty', type(v).__name__)))


def push_tt(ts, tt):
    ts.toks.append(tt)


PUNCT_FNS = {
    'push_add': '+', 'push_add_eq': '+=', 'push_and': '&', 'push_and_and': '&&', 'push_and_eq': '&=', 'push_at': '@',
    'push_bang': '!', 'push_caret': '^', 'push_caret_eq': '^=', 'push_colon': ':', 'push_colon2': '::', 'push_comma': ',',
    'push_div': '/', 'push_div_eq': '/=', 'push_dot': '.', 'push_dot2': '..', 'push_dot3': '...', 'push_dot_dot_eq': '..=',
    'push_eq': '=', 'push_eq_eq': '==', 'push_ge': '>=', 'push_gt': '>', 'push_le': '<=', 'push_lt': '<', 'push_mul_eq': '*=',
    'push_ne': '!=', 'push_or': '|', 'push_or_eq': '|=', 'push_or_or': '||', 'push_pound': '#', 'push_question': '?',
    'push_rarrow': '->', 'push_larrow': '<-', 'push_rem': '%', 'push_rem_eq': '%=', 'push_fat_arrow': '=>', 'push_semi': ';',
    'push_shl': '<<', 'push_shl_eq': '<<=', 'push_shr': '>>', 'push_shr_eq': '>>=', 'push_star': '*', 'push_sub': '-',
    'push_sub_eq': '-=', 'push_underscore': '_',
}


def _mk_punct(name, spanned):
    ch = PUNCT_FNS[name]

    def f(ex, c, a):
        ts = ts_of(a[0])
        if ch == '_':
            ts.toks.append(('I', '_', 'macro'))
        else:
            ts.toks.append(('P', ch, 'macro'))
        return UNIT
    return f


for _n in PUNCT_FNS:
    MODELS[_n] = _mk_punct(_n, False)
    MODELS[_n + '_spanned'] = _mk_punct(_n, True)


@model('push_ident')
def _push_ident(ex, c, a):
    ts_of(a[0]).toks.append(('I', deref(a[1]), 'macro'))
    return UNIT


@model('push_ident_spanned')
def _push_ident_spanned(ex, c, a):
    ts_of(a[0]).toks.append(('I', deref(a[2]), 'macro'))
    return UNIT


@model('push_lifetime')
def _push_lifetime(ex, c, a):
    s = deref(a[1])
    ts_of(a[0]).toks.append(('LT', s[1:], 'macro'))
    return UNIT


@model('push_lifetime_spanned')
def _push_lifetime_spanned(ex, c, a):
    s = deref(a[2])
    ts_of(a[0]).toks.append(('LT', s[1:], 'macro'))
    return UNIT


def delim_char(d):
    return {'Parenthesis': '(', 'Brace': '{', 'Bracket': '[', 'None': ''}[d.variant]


@model('push_group')
def _push_group(ex, c, a):
    ts_of(a[0]).toks.append(('G', delim_char(a[1]), tuple(deref(a[2]).toks), 'macro'))
    return UNIT


@model('push_group_spanned')
def _push_group_spanned(ex, c, a):
    ts_of(a[0]).toks.append(('G', delim_char(a[2]), tuple(deref(a[3]).toks), 'macro'))
    return UNIT


@model('parse', 'parse_spanned')
def _quote_parse(ex, c, a):
    if len(a) == 1:
        # syn::__private::parse::<T>(TokenStream): the back end of parse_quote!
        target = c.generics or ''
        r = synprint.parse_template(ex, target, deref(a[0]).toks)
        if 'Box<' in target:
            r = Obj('Box', None, [r])
        return r
    # quote::__private::parse(&mut TokenStream, "literal tokens") for tokens quote! cannot pre-lex
    if c.segs and c.segs[-1] == '__private' and len(a) >= 2 and isinstance(deref(a[-1]), str):
        src = deref(a[-1])
        ts_of(a[0]).toks.extend(synprint.lex(src))
        return UNIT
    raise Unsupported(c.text)


@model('get_span', '__span', 'GetSpan::__into_span', 'GetSpanInner::__into_span', 'GetSpanBase::__into_span', '__into_span')
def _get_span(ex, c, a):
    v = a[0]
    while isinstance(v, Obj) and v.ty in ('GetSpan', 'GetSpanInner', 'GetSpanBase') and v.fields:
        v = v.fields[0]
    return v


@model('RepInterp')
def _repinterp(ex, c, a):
    return Obj('RepInterp', None, [a[0]])


@model('quote_into_iter')
def _quote_into_iter(ex, c, a):
    v = a[0]
    t = deref(v)
    if isinstance(t, Iter):
        it = t
    else:
        it = into_iter(ex, v if isinstance(v, Ptr) else new_cell(t))
    return Obj('tuple', None, [it, FnItem('HasIterator')])


@model('BitOr::bitor', 'CheckHasIterator::check')
def _hasiter(ex, c, a):
    return FnItem('HasIterator')


@model('ToTokens::to_tokens')
def _to_tokens(ex, c, a):
    ts = ts_of(a[1])
    emit(ex, a[0], ts)
    return UNIT


@model('ToTokens::to_token_stream', 'ToTokens::into_token_stream')
def _to_token_stream(ex, c, a):
    ts = TS()
    emit(ex, a[0], ts)
    return ts


def emit(ex, v, ts):
    """quote::ToTokens for every value that is not a crate-local type"""
    while isinstance(v, Ptr):
        v = v.get()
    if isinstance(v, Ident):
        ts.toks.append(('I', v.name, v.origin, v.raw))
        return
    if isinstance(v, Tok):
        synprint.emit_token(v.name, ts.toks, 'macro')
        return
    if isinstance(v, TS):
        ts.toks.extend(v.toks)
        return
    if isinstance(v, Sym):
        # an input node the macro never looked into: printed as it came in
        ts.toks.append(('N', 'lazy', v))
        return
    if isinstance(v, Obj):
        if v.ty == 'Option':
            if v.variant == 'Some':
                emit(ex, v.fields[0], ts)
            return
        if v.ty in ('Box', 'RepInterp'):
            emit(ex, v.fields[0], ts)
            return
        if v.ty == 'Pair':
            emit(ex, v.fields[0], ts)
            if v.variant == 'Punctuated':
                emit(ex, v.fields[1], ts)
            return
        # crate-local ToTokens impl
        name = ex.prog.ix.methods.get((v.ty, 'ToTokens', 'to_tokens'))
        if name:
            ex.run_body(ex.prog.bodies[name], [new_cell(v), new_cell(ts)])
            return
        if synprint.is_syn_node(v):
            ts.toks.append(('N', v.ty + (('::' + v.variant) if v.variant else ''), synprint.snapshot(v)))
            return
        raise Unsupported(f'ToTokens for {v.ty}::{v.variant}')
    if isinstance(v, Punct):
        ts.toks.append(('N', 'Punctuated', synprint.snapshot(v)))
        return
    if isinstance(v, bool):
        ts.toks.append(('I', 'true' if v else 'false', 'macro'))
        return
    raise Unsupported(f'ToTokens for {type(v).__name__}')


@model('TokenStreamExt::append_all')
def _append_all(ex, c, a):
    ts = ts_of(a[0])
    it = into_iter(ex, a[1])
    while True:
        n = iter_next(ex, it)
        if n.variant == 'None':
            break
        emit(ex, n.fields[0], ts)
    return UNIT


# ===========================================================================
# syn data
# ===========================================================================

@model('Punctuated::new')
def _punct_new(ex, c, a):
    return Punct([], punct_sep(c.text))


@model('Punctuated::push', 'Punctuated::push_value')
def _punct_push(ex, c, a):
    deref(a[0]).items.append(a[1])
    return UNIT


@model('Punctuated::insert')
def _punct_insert(ex, c, a):
    p = deref_force(ex, a[0])
    p.items.insert(a[1], a[2])
    return UNIT


@model('Punctuated::pairs')
def _punct_pairs(ex, c, a):
    return Iter('pairs', deref_force(ex, a[0]))


@model('Pair::value')
def _pair_value(ex, c, a):
    # Pair<&T, &P>::value(&self) -> &&T
    return Ptr(deref(a[0]).fields, 0)


@model('Pair::into_value')
def _pair_into_value(ex, c, a):
    return deref(a[0]).fields[0]


@model('Pair::punct')
def _pair_punct(ex, c, a):
    p = deref(a[0])
    return Some(p.fields[1]) if p.variant == 'Punctuated' else NONE()


def _tok_ctor(name):
    def f(ex, c, a):
        return Tok(name, a[0] if a else CALL_SITE)
    return f


for _t in synprint.TOKENS:
    MODELS['token::' + _t] = _tok_ctor(_t)
    MODELS[_t] = _tok_ctor(_t)


for _t in ('Paren', 'Brace', 'Bracket'):
    MODELS['token::' + _t] = _tok_ctor(_t)
    MODELS[_t] = _tok_ctor(_t)


def _surround(delim):
    def f(ex, c, a):
        ts = ts_of(a[1])
        inner = TS()
        ex.call_value(a[2], [new_cell(inner)])
        ts.toks.append(('G', delim, tuple(inner.toks), 'macro'))
        return UNIT
    return f


MODELS['Paren::surround'] = _surround('(')
MODELS['Brace::surround'] = _surround('{')
MODELS['Bracket::surround'] = _surround('[')


@model('Error::new')
def _error_new(ex, c, a):
    return Obj('Error', None, [a[0], deref(a[1])], ['span', 'message'])


@model('Error::new_spanned')
def _error_new_spanned(ex, c, a):
    return Obj('Error', None, [Span(('input-node', 'spanned')), deref(a[1])], ['span', 'message'])


@model('Error::into_compile_error', 'Error::to_compile_error')
def _into_compile_error(ex, c, a):
    e = deref(a[0])
    ts = TS()
    ts.toks.append(('COMPILE_ERROR', e.fields[1], e.fields[0]))
    return ts


@model('Attribute::path')
def _attr_path(ex, c, a):
    at = deref_force(ex, a[0])
    meta = ex.force_slot(at.fields, at.names.index('meta'))
    # Meta::Path(p) | Meta::List{path,..} | Meta::NameValue{path,..}
    if meta.variant == 'Path':
        return Ptr(meta.fields, 0)
    inner = ex.force_slot(meta.fields, 0)
    return Ptr(inner.fields, inner.names.index('path'))


@model('VisitMut::visit_pat_mut', 'visit_pat_mut')
def _visit_pat_mut(ex, c, a):
    visitor, pat = a[0], a[1]
    synprint.visit_pat_idents(ex, pat, lambda slotptr: ex.call(
        '<X as VisitMut>::visit_pat_ident_mut', [visitor, slotptr]))
    return UNIT


@model('parse_quote::parse', 'parse_quote')
def _parse_quote(ex, c, a):
    ts = ts_of(a[0]) if not isinstance(a[0], TS) else a[0]
    target = c.generics or ''
    return synprint.parse_template(ex, target, ts.toks)


# ===========================================================================
# more of std that a refactoring of the macro is likely to reach for
# ===========================================================================

def _items(ex, v):
    t = deref_force(ex, v) if isinstance(v, Ptr) else ex.force(v)
    if isinstance(t, Obj) and t.ty == 'Box':
        t = t.fields[0]
    if not isinstance(t, (VecObj, Punct)):
        raise Unsupported('expected a Vec / slice / Punctuated, got ' + type(t).__name__)
    return t


def sort_key(x):
    x = deref(x)
    if isinstance(x, Ident):
        x = x.name
    if isinstance(x, (str, int, bool)):
        return x
    raise Unsupported('ordering of ' + type(x).__name__ + ' (symbolic or structured values are not ordered by the model)')


@model('Vec::clear', 'Punctuated::clear')
def _vec_clear(ex, c, a):
    _items(ex, a[0]).items.clear()
    return UNIT


@model('Vec::swap_remove')
def _vec_swap_remove(ex, c, a):
    v = _items(ex, a[0]).items
    i = a[1]
    if i >= len(v):
        raise PanicExc('Vec::swap_remove', 'index out of bounds')
    x = v[i]
    v[i] = v[-1]
    v.pop()
    return x


@model('Vec::remove')
def _vec_remove(ex, c, a):
    v = _items(ex, a[0]).items
    if a[1] >= len(v):
        raise PanicExc('Vec::remove', 'index out of bounds')
    return v.pop(a[1])


@model('Vec::insert')
def _vec_insert(ex, c, a):
    v = _items(ex, a[0]).items
    if a[1] > len(v):
        raise PanicExc('Vec::insert', 'index out of bounds')
    v.insert(a[1], a[2])
    return UNIT


@model('Vec::pop', 'Punctuated::pop')
def _vec_pop(ex, c, a):
    v = _items(ex, a[0]).items
    if not v:
        return NONE()
    x = v.pop()
    if c.segs and c.segs[-1] == 'Punctuated':
        return Some(Obj('Pair', 'End', [x]))
    return Some(x)


@model('Vec::truncate')
def _vec_truncate(ex, c, a):
    v = _items(ex, a[0]).items
    del v[a[1]:]
    return UNIT


@model('Vec::reverse', 'slice::reverse')
def _vec_reverse(ex, c, a):
    _items(ex, a[0]).items.reverse()
    return UNIT


@model('Vec::sort', 'slice::sort', 'slice::sort_unstable', 'Vec::sort_unstable')
def _vec_sort(ex, c, a):
    v = _items(ex, a[0]).items
    v.sort(key=sort_key)
    return UNIT


@model('Vec::dedup')
def _vec_dedup(ex, c, a):
    v = _items(ex, a[0]).items
    out = []
    for x in v:
        if not out or sort_key(out[-1]) != sort_key(x):
            out.append(x)
    v[:] = out
    return UNIT


@model('Vec::retain')
def _vec_retain(ex, c, a):
    v = _items(ex, a[0]).items
    keep = []
    for i in range(len(v)):
        if ex.branch(ex.call_value(a[1], [Ptr(v, i)]), 'retain'):
            keep.append(v[i])
    v[:] = keep
    return UNIT


@model('Vec::extend_from_slice')
def _vec_extend_from_slice(ex, c, a):
    v = _items(ex, a[0]).items
    v.extend(clone_val(x) for x in _items(ex, a[1]).items)
    return UNIT


@model('Vec::append')
def _vec_append(ex, c, a):
    v = _items(ex, a[0]).items
    o = _items(ex, a[1]).items
    v.extend(o)
    o.clear()
    return UNIT


@model('slice::get', 'Vec::get', 'slice::get_mut')
def _slice_get(ex, c, a):
    v = _items(ex, a[0]).items
    i = a[1]
    if isinstance(i, int) and 0 <= i < len(v):
        return Some(Ptr(v, i))
    return NONE()


@model('slice::contains', 'Vec::contains')
def _slice_contains(ex, c, a):
    v = _items(ex, a[0]).items
    x = deref(a[1])
    conds = [str_eq(x, y) for y in v]
    if all(isinstance(k, bool) for k in conds):
        return any(conds)
    return z3.Or([k if not isinstance(k, bool) else z3.BoolVal(k) for k in conds])


@model('Index::index', 'IndexMut::index_mut')
def _index(ex, c, a):
    v = _items(ex, a[0]).items
    i = a[1]
    if not (isinstance(i, int) and 0 <= i < len(v)):
        raise PanicExc('index', 'index out of bounds')
    return Ptr(v, i)


@model('Iterator::rev')
def _rev(ex, c, a):
    it = into_iter(ex, a[0])
    items = []
    while True:
        n = iter_next(ex, it)
        if n.variant == 'None':
            break
        items.append(n.fields[0])
    return Iter('list', list(reversed(items)), 'val')


@model('Iterator::zip')
def _zip(ex, c, a):
    return Iter('zip', into_iter(ex, a[0]), into_iter(ex, a[1]))


@model('Iterator::chain')
def _chain(ex, c, a):
    return Iter('chain', into_iter(ex, a[0]), into_iter(ex, a[1]))


@model('Iterator::skip')
def _skip(ex, c, a):
    it = into_iter(ex, a[0])
    for _ in range(a[1]):
        if iter_next(ex, it).variant == 'None':
            break
    return it


@model('Iterator::take')
def _take_it(ex, c, a):
    it = into_iter(ex, a[0])
    items = []
    for _ in range(a[1]):
        n = iter_next(ex, it)
        if n.variant == 'None':
            break
        items.append(n.fields[0])
    return Iter('list', items, 'val')


@model('Iterator::count')
def _count(ex, c, a):
    it = into_iter(ex, a[0])
    k = 0
    while iter_next(ex, it).variant != 'None':
        k += 1
    return k


@model('Iterator::last')
def _it_last(ex, c, a):
    it = into_iter(ex, a[0])
    last = NONE()
    while True:
        n = iter_next(ex, it)
        if n.variant == 'None':
            return last
        last = n


@model('Iterator::nth')
def _it_nth(ex, c, a):
    it = into_iter(ex, a[0])
    for _ in range(a[1]):
        if iter_next(ex, it).variant == 'None':
            return NONE()
    return iter_next(ex, it)


@model('Iterator::position')
def _position(ex, c, a):
    it = into_iter(ex, a[0])
    k = 0
    while True:
        n = iter_next(ex, it)
        if n.variant == 'None':
            return NONE()
        if ex.branch(ex.call_value(a[1], [n.fields[0]]), 'position'):
            return Some(k)
        k += 1


@model('Iterator::for_each')
def _for_each(ex, c, a):
    it = into_iter(ex, a[0])
    while True:
        n = iter_next(ex, it)
        if n.variant == 'None':
            return UNIT
        ex.call_value(a[1], [n.fields[0]])


@model('Iterator::fold')
def _fold(ex, c, a):
    it = into_iter(ex, a[0])
    acc = a[1]
    while True:
        n = iter_next(ex, it)
        if n.variant == 'None':
            return acc
        acc = ex.call_value(a[2], [acc, n.fields[0]])


@model('Iterator::flat_map')
def _flat_map(ex, c, a):
    it = into_iter(ex, a[0])
    out = []
    while True:
        n = iter_next(ex, it)
        if n.variant == 'None':
            break
        inner = into_iter(ex, ex.call_value(a[1], [n.fields[0]]))
        while True:
            m = iter_next(ex, inner)
            if m.variant == 'None':
                break
            out.append(m.fields[0])
    return Iter('list', out, 'val')


@model('Iterator::partition')
def _partition(ex, c, a):
    it = into_iter(ex, a[0])
    yes, no = [], []
    while True:
        n = iter_next(ex, it)
        if n.variant == 'None':
            break
        (yes if ex.branch(ex.call_value(a[1], [new_cell(n.fields[0])]), 'partition') else no).append(n.fields[0])
    return Obj('tuple', None, [VecObj(yes), VecObj(no)])


@model('Iterator::unzip')
def _unzip(ex, c, a):
    it = into_iter(ex, a[0])
    xs, ys = [], []
    while True:
        n = iter_next(ex, it)
        if n.variant == 'None':
            break
        xs.append(n.fields[0].fields[0])
        ys.append(n.fields[0].fields[1])
    return Obj('tuple', None, [VecObj(xs), VecObj(ys)])


_old_iter_next = iter_next


def iter_next(ex, it):  # noqa: F811  (extends the protocol with zip / chain)
    it0 = deref(it)
    if it0.kind == 'zip':
        x = _old_iter_next(ex, it0.a)
        if x.variant == 'None':
            return x
        y = _old_iter_next(ex, it0.b)
        if y.variant == 'None':
            return y
        return Some(Obj('tuple', None, [x.fields[0], y.fields[0]]))
    if it0.kind == 'chain':
        x = _old_iter_next(ex, it0.a)
        if x.variant == 'Some':
            return x
        return _old_iter_next(ex, it0.b)
    return _old_iter_next(ex, it)


MODELS['Iterator::next'] = lambda ex, c, a: iter_next(ex, a[0])


@model('Option::take')
def _opt_take(ex, c, a):
    p = a[0]
    v = deref_force(ex, p)
    old = Obj('Option', v.variant, list(v.fields))
    v.variant = 'None'
    v.fields = []
    return old


@model('Option::filter')
def _opt_filter(ex, c, a):
    v = ex.force(a[0])
    if v.variant == 'Some' and ex.branch(ex.call_value(a[1], [Ptr(v.fields, 0)]), 'filter'):
        return v
    return NONE()


@model('Option::ok_or', 'Option::ok_or_else')
def _opt_ok_or(ex, c, a):
    v = ex.force(a[0])
    if v.variant == 'Some':
        return Ok(v.fields[0])
    return Err(a[1] if c.method == 'ok_or' else ex.call_value(a[1], []))


@model('Option::map_or')
def _opt_map_or(ex, c, a):
    v = ex.force(a[0])
    return ex.call_value(a[2], [v.fields[0]]) if v.variant == 'Some' else a[1]


@model('Option::map_or_else')
def _opt_map_or_else(ex, c, a):
    v = ex.force(a[0])
    return ex.call_value(a[2], [v.fields[0]]) if v.variant == 'Some' else ex.call_value(a[1], [])


@model('Option::zip')
def _opt_zip(ex, c, a):
    x, y = ex.force(a[0]), ex.force(a[1])
    if x.variant == 'Some' and y.variant == 'Some':
        return Some(Obj('tuple', None, [x.fields[0], y.fields[0]]))
    return NONE()


@model('Option::insert', 'Option::replace')
def _opt_insert(ex, c, a):
    v = deref_force(ex, a[0])
    old = Obj('Option', v.variant, list(v.fields))
    v.variant = 'Some'
    v.fields = [a[1]]
    return Ptr(v.fields, 0) if c.method == 'insert' else old


@model('Result::ok')
def _res_ok(ex, c, a):
    v = ex.force(a[0])
    return Some(v.fields[0]) if v.variant == 'Ok' else NONE()


@model('Result::map', 'Result::and_then')
def _res_map(ex, c, a):
    v = ex.force(a[0])
    if v.variant == 'Ok':
        r = ex.call_value(a[1], [v.fields[0]])
        return Ok(r) if c.method == 'map' else r
    return v


@model('Result::map_err')
def _res_map_err(ex, c, a):
    v = ex.force(a[0])
    if v.variant == 'Err':
        return Err(ex.call_value(a[1], [v.fields[0]]))
    return v


@model('Result::unwrap_or', 'Result::unwrap_or_default')
def _res_unwrap_or(ex, c, a):
    v = ex.force(a[0])
    if v.variant == 'Ok':
        return v.fields[0]
    if c.method == 'unwrap_or':
        return a[1]
    raise Unsupported('unwrap_or_default')


CHAR_PREDS = {'is_alphabetic': str.isalpha, 'is_alphanumeric': str.isalnum, 'is_numeric': str.isnumeric, 'is_ascii_digit': lambda ch: ch.isascii() and ch.isdigit(),
              'is_ascii_alphabetic': lambda ch: ch.isascii() and ch.isalpha(), 'is_ascii_alphanumeric': lambda ch: ch.isascii() and ch.isalnum(),
              'is_uppercase': str.isupper, 'is_lowercase': str.islower, 'is_whitespace': str.isspace,
              'is_ascii_uppercase': lambda ch: ch.isascii() and ch.isupper(), 'is_ascii_lowercase': lambda ch: ch.isascii() and ch.islower()}


@model('str::starts_with', 'str::ends_with', 'str::contains')
def _str_pred(ex, c, a):
    s_, p = deref(a[0]), deref(a[1])
    if isinstance(s_, Ident):
        s_ = ident_string(s_)
    if isinstance(p, FnItem):
        # a `char` predicate as pattern (`s.starts_with(char::is_alphabetic)`)
        pred = CHAR_PREDS.get(p.path.split('::')[-1].split('<')[0])
        if pred is None or not isinstance(s_, str):
            raise Unsupported(f'{c.method} with pattern {p.path} on {"a symbolic string" if not isinstance(s_, str) else "a string"}')
        if c.method == 'starts_with':
            return bool(s_) and pred(s_[0])
        if c.method == 'ends_with':
            return bool(s_) and pred(s_[-1])
        return any(pred(ch) for ch in s_)
    if isinstance(s_, str) and isinstance(p, str):
        return {'starts_with': s_.startswith(p), 'ends_with': s_.endswith(p), 'contains': p in s_}[c.method]
    zs = s_ if isinstance(s_, z3.ExprRef) else z3.StringVal(s_)
    zp = p if isinstance(p, z3.ExprRef) else z3.StringVal(p)
    return {'starts_with': z3.PrefixOf(zp, zs), 'ends_with': z3.SuffixOf(zp, zs), 'contains': z3.Contains(zs, zp)}[c.method]


@model('str::len', 'String::len')
def _str_len(ex, c, a):
    s_ = deref(a[0])
    return len(s_) if isinstance(s_, str) else z3.Length(s_)


@model('str::is_empty', 'String::is_empty')
def _str_is_empty(ex, c, a):
    s_ = deref(a[0])
    return (len(s_) == 0) if isinstance(s_, str) else (z3.Length(s_) == 0)


@model('String::new')
def _string_new(ex, c, a):
    return ''


@model('String::push_str', 'String::push')
def _push_str(ex, c, a):
    p = a[0]
    cur = p.get()
    add = deref(a[1])
    p.set(concat_parts([cur, add]))
    return UNIT


@model('str::to_owned', 'str::to_string', 'ToOwned::to_owned', 'String::from')
def _str_to_owned(ex, c, a):
    v = deref(a[0])
    if isinstance(v, (str, z3.ExprRef)):
        return v
    return clone_val(v)


@model('str::to_lowercase', 'str::to_uppercase', 'str::to_ascii_lowercase', 'str::to_ascii_uppercase')
def _str_case(ex, c, a):
    v = deref(a[0])
    if isinstance(v, str):
        return v.lower() if 'lower' in c.method else v.upper()
    raise Unsupported(c.method + ' of a symbolic string')


# ordered collections are deterministic: modelled as sorted lists of concrete keys
@model('BTreeSet::new', 'BTreeMap::new')
def _btree_new(ex, c, a):
    return Obj('BTree', 'Map' if 'Map' in c.text else 'Set', [[]])


@model('BTreeSet::insert')
def _btreeset_insert(ex, c, a):
    t = deref(a[0])
    k = sort_key(a[1])
    keys = [sort_key(x) for x in t.fields[0]]
    if k in keys:
        return False
    t.fields[0].append(a[1])
    t.fields[0].sort(key=sort_key)
    return True


@model('BTreeSet::contains')
def _btreeset_contains(ex, c, a):
    t = deref(a[0])
    return sort_key(a[1]) in [sort_key(x) for x in t.fields[0]]


@model('BTreeSet::iter', 'BTreeSet::into_iter')
def _btreeset_iter(ex, c, a):
    t = deref(a[0])
    lst = t.fields[0]
    return Iter('list', lst, 'ref' if c.method == 'iter' else 'val')


@model('BTreeSet::len', 'BTreeMap::len')
def _btree_len(ex, c, a):
    return len(deref(a[0]).fields[0])


_old_into_iter = into_iter


def into_iter(ex, v):  # noqa: F811
    t = deref(v)
    if isinstance(t, Obj) and t.ty == 'BTree':
        if t.variant == 'Map':
            return Iter('list', [Obj('tuple', None, [k, val]) for k, val in t.fields[0]], 'val')
        return Iter('list', t.fields[0], 'ref' if isinstance(v, Ptr) else 'val')
    if isinstance(t, SetObj):
        ex.notes.setdefault('impure', []).append('iteration over a hash-ordered collection (HashSet)')
        if not getattr(ex.prog, 'strict_impure', True):
            return Iter('list', t.items, 'ref' if isinstance(v, Ptr) else 'val')
        raise Unsupported('IMPURE primitive reached (iteration over a hash-ordered collection)')
    return _old_into_iter(ex, v)


MODELS['IntoIterator::into_iter'] = lambda ex, c, a: into_iter(ex, a[0])


@model('BTreeMap::insert')
def _btreemap_insert(ex, c, a):
    t = deref(a[0])
    k = sort_key(a[1])
    for i, (kk, vv) in enumerate(t.fields[0]):
        if sort_key(kk) == k:
            t.fields[0][i] = (kk, a[2])
            return Some(vv)
    t.fields[0].append((a[1], a[2]))
    t.fields[0].sort(key=lambda kv: sort_key(kv[0]))
    return NONE()


@model('BTreeMap::get', 'BTreeMap::contains_key')
def _btreemap_get(ex, c, a):
    t = deref(a[0])
    k = sort_key(a[1])
    for kk, vv in t.fields[0]:
        if sort_key(kk) == k:
            return Some(new_cell(vv)) if c.method == 'get' else True
    return NONE() if c.method == 'get' else False


@model('BTreeMap::values', 'BTreeMap::into_values', 'BTreeMap::keys', 'BTreeMap::into_keys')
def _btreemap_values(ex, c, a):
    t = deref(a[0])
    idx = 1 if 'values' in c.method else 0
    return Iter('list', [kv[idx] for kv in t.fields[0]], 'val')


@model('HashMap::new', 'HashSet::new')
def _hash_new(ex, c, a):
    if 'HashSet' in c.text:
        return SetObj([])
    return Obj('HashMap', None, [[]])


@model('HashMap::insert')
def _hashmap_insert(ex, c, a):
    t = deref(a[0])
    k = sort_key(a[1])
    for i, (kk, vv) in enumerate(t.fields[0]):
        if sort_key(kk) == k:
            t.fields[0][i] = (kk, a[2])
            return Some(vv)
    t.fields[0].append((a[1], a[2]))
    return NONE()


@model('HashMap::get', 'HashMap::contains_key')
def _hashmap_get(ex, c, a):
    t = deref(a[0])
    k = sort_key(a[1])
    for kk, vv in t.fields[0]:
        if sort_key(kk) == k:
            return Some(new_cell(vv)) if c.method == 'get' else True
    return NONE() if c.method == 'get' else False


@model('Ord::cmp', 'PartialOrd::partial_cmp')
def _cmp(ex, c, a):
    x, y = sort_key(a[0]), sort_key(a[1])
    o = Obj('Ordering', 'Less' if x < y else ('Greater' if x > y else 'Equal'), [])
    return o if c.method == 'cmp' else Some(o)


@model('PartialOrd::lt', 'PartialOrd::le', 'PartialOrd::gt', 'PartialOrd::ge')
def _ord_ops(ex, c, a):
    x, y = sort_key(a[0]), sort_key(a[1])
    return {'lt': x < y, 'le': x <= y, 'gt': x > y, 'ge': x >= y}[c.method]


@model('Punctuated::push_punct')
def _push_punct(ex, c, a):
    deref(a[0]).trailing = True
    return UNIT


@model('Punctuated::into_iter', 'Vec::into_iter')
def _into_iter_val(ex, c, a):
    return into_iter(ex, a[0])


@model('Punctuated::extend')
def _punct_extend(ex, c, a):
    tgt = deref(a[0])
    it = into_iter(ex, a[1])
    while True:
        n = iter_next(ex, it)
        if n.variant == 'None':
            return UNIT
        tgt.items.append(n.fields[0])


@model('Path::is_ident')
def _path_is_ident(ex, c, a):
    p = deref_force(ex, a[0])
    segs = ex.force_slot(p.fields, p.names.index('segments'))
    lc = ex.force_slot(p.fields, p.names.index('leading_colon'))
    if lc.variant == 'Some' or len(segs.items) != 1:
        return False
    seg = ex.force_slot(segs.items, 0)
    args = ex.force_slot(seg.fields, seg.names.index('arguments'))
    if args.variant != 'None':
        return False
    return str_eq(ex.force_slot(seg.fields, seg.names.index('ident')), a[1])


@model('Path::get_ident')
def _path_get_ident(ex, c, a):
    p = deref_force(ex, a[0])
    segs = ex.force_slot(p.fields, p.names.index('segments'))
    lc = ex.force_slot(p.fields, p.names.index('leading_colon'))
    if lc.variant == 'Some' or len(segs.items) != 1:
        return NONE()
    seg = ex.force_slot(segs.items, 0)
    if ex.force_slot(seg.fields, seg.names.index('arguments')).variant != 'None':
        return NONE()
    return Some(Ptr(seg.fields, seg.names.index('ident')))


@model('Generics::lifetimes', 'Generics::type_params', 'Generics::const_params',
       'Generics::lifetimes_mut', 'Generics::type_params_mut', 'Generics::const_params_mut')
def _generics_filter(ex, c, a):
    g = deref_force(ex, a[0])
    params = ex.force_slot(g.fields, g.names.index('params'))
    want = {'lifetimes': 'Lifetime', 'type_params': 'Type', 'const_params': 'Const'}[c.method.replace('_mut', '')]
    out = []
    for i in range(len(params.items)):
        gp = ex.force_slot(params.items, i)
        if gp.variant == want:
            out.append(Ptr(gp.fields, 0))
    return Iter('list', out, 'val')


@model('String::insert', 'String::insert_str')
def _string_insert(ex, c, a):
    p = a[0]
    cur = p.get()
    idx, add = a[1], deref(a[2])
    if isinstance(add, int):
        add = chr(add)
    if isinstance(cur, str) and isinstance(add, str):
        p.set(cur[:idx] + add + cur[idx:])
    elif idx == 0:
        p.set(concat_parts([add, cur]))
    else:
        raise Unsupported('String::insert into a symbolic string at a position other than 0')
    return UNIT


@model('HashMap::entry', 'BTreeMap::entry')
def _map_entry(ex, c, a):
    return Obj('MapEntry', None, [deref(a[0]), a[1]])


@model('Entry::or_insert', 'Entry::or_insert_with', 'Entry::or_default')
def _entry_or_insert(ex, c, a):
    e = a[0]
    m, key = e.fields
    k = sort_key(key)
    for i, (kk, vv) in enumerate(m.fields[0]):
        if sort_key(kk) == k:
            cell = [vv]
            m.fields[0][i] = (kk, vv)
            return new_cell(vv)
    if c.method == 'or_insert':
        v = a[1]
    elif c.method == 'or_insert_with':
        v = ex.call_value(a[1], [])
    else:
        raise Unsupported('Entry::or_default')
    m.fields[0].append((key, v))
    if m.ty == 'BTree':
        m.fields[0].sort(key=lambda kv: sort_key(kv[0]))
    return new_cell(v)


@model('slice::sort_by_key', 'Vec::sort_by_key', 'slice::sort_by_cached_key', 'slice::sort_unstable_by_key')
def _sort_by_key(ex, c, a):
    v = _items(ex, a[0]).items
    keyed = []
    for i in range(len(v)):
        k = ex.call_value(a[1], [Ptr(v, i)])
        if isinstance(k, z3.ExprRef):
            k = ex.branch(k, 'sort key') if z3.is_bool(k) else sort_key(k)
        keyed.append((sort_key(k) if not isinstance(k, bool) else k, i))
    order = sorted(range(len(v)), key=lambda j: (keyed[j][0], j))   # stable
    v[:] = [v[j] for j in order]
    return UNIT


@model('slice::sort_by', 'Vec::sort_by', 'slice::sort_unstable_by')
def _sort_by(ex, c, a):
    import functools
    v = _items(ex, a[0]).items

    def cmp(x, y):
        o = ex.call_value(a[1], [new_cell(x), new_cell(y)])
        return {'Less': -1, 'Equal': 0, 'Greater': 1}[o.variant]
    v.sort(key=functools.cmp_to_key(cmp))
    return UNIT


@model('Iterator::min', 'Iterator::max')
def _min_max(ex, c, a):
    it = into_iter(ex, a[0])
    items = []
    while True:
        n = iter_next(ex, it)
        if n.variant == 'None':
            break
        items.append(n.fields[0])
    if not items:
        return NONE()
    f = min if c.method == 'min' else max
    return Some(f(items, key=sort_key))


@model('Iterator::sum')
def _sum(ex, c, a):
    it = into_iter(ex, a[0])
    s_ = 0
    while True:
        n = iter_next(ex, it)
        if n.variant == 'None':
            return s_
        s_ += deref(n.fields[0])


@model('Iterator::step_by', 'Iterator::skip_while', 'Iterator::take_while')
def _it_misc(ex, c, a):
    it = into_iter(ex, a[0])
    items = []
    while True:
        n = iter_next(ex, it)
        if n.variant == 'None':
            break
        items.append(n.fields[0])
    if c.method == 'step_by':
        return Iter('list', items[::a[1]], 'val')
    out, dropping = [], True
    for x in items:
        t = ex.branch(ex.call_value(a[1], [new_cell(x)]), c.method)
        if c.method == 'take_while':
            if not t:
                break
            out.append(x)
        else:
            if dropping and t:
                continue
            dropping = False
            out.append(x)
    return Iter('list', out, 'val')


@model('str::strip_prefix', 'str::strip_suffix')
def _strip_fix(ex, c, a):
    s_ = deref(a[0])
    p = deref(a[1])
    if isinstance(p, int):
        p = chr(p)
    if isinstance(s_, Ident):
        s_ = ident_string(s_)
    pre = c.method == 'strip_prefix'
    if isinstance(s_, str) and isinstance(p, str):
        if (s_.startswith(p) if pre else s_.endswith(p)):
            return Some(s_[len(p):] if pre else s_[:len(s_) - len(p)])
        return NONE()
    zs = s_ if isinstance(s_, z3.ExprRef) else z3.StringVal(s_)
    zp = p if isinstance(p, z3.ExprRef) else z3.StringVal(p)
    if ex.branch(z3.PrefixOf(zp, zs) if pre else z3.SuffixOf(zp, zs), c.method):
        n = z3.Length(zp)
        return Some(z3.SubString(zs, n, z3.Length(zs) - n) if pre else z3.SubString(zs, 0, z3.Length(zs) - n))
    return NONE()


@model('str::trim_start_matches', 'str::trim_end_matches', 'str::trim_matches')
def _trim_matches(ex, c, a):
    s_ = deref(a[0])
    p = deref(a[1])
    if isinstance(p, int):
        p = chr(p)
    if isinstance(s_, Ident):
        s_ = ident_string(s_)
    if isinstance(s_, z3.ExprRef) and isinstance(p, str) and p and c.method == 'trim_start_matches':
        # solver-valued string: strip up to four occurrences, branching on the prefix test each time
        zp = z3.StringVal(p)
        for _ in range(4):
            if not ex.branch(z3.PrefixOf(zp, s_), 'trim_start_matches'):
                return s_
            s_ = z3.SubString(s_, len(p), z3.Length(s_) - len(p))
        if ex.branch(z3.PrefixOf(zp, s_), 'trim_start_matches'):
            raise Unsupported('trim_start_matches: more than four repetitions of the pattern in a symbolic string')
        return s_
    if not (isinstance(s_, str) and isinstance(p, str) and p):
        raise Unsupported(c.method + ' of a symbolic string')
    if c.method in ('trim_start_matches', 'trim_matches'):
        while s_.startswith(p):
            s_ = s_[len(p):]
    if c.method in ('trim_end_matches', 'trim_matches'):
        while s_.endswith(p):
            s_ = s_[:len(s_) - len(p)]
    return s_


@model('Vec::as_slice', 'Vec::as_mut_slice', 'slice::as_ref', 'Vec::as_ref')
def _as_slice(ex, c, a):
    return a[0]


@model('slice::to_vec', 'slice::to_owned')
def _to_vec(ex, c, a):
    return VecObj([clone_val(x) for x in _items(ex, a[0]).items])


@model('slice::join', 'Vec::join', 'slice::concat')
def _join(ex, c, a):
    parts = [deref(x) for x in _items(ex, a[0]).items]
    sep = deref(a[1]) if len(a) > 1 else ''
    out = []
    for i, x in enumerate(parts):
        if i and sep != '':
            out.append(sep)
        out.append(ident_string(x) if isinstance(x, Ident) else x)
    return concat_parts(out) if out else ''


RUST_KEYWORDS_STRICT = {'as', 'break', 'const', 'continue', 'crate', 'else', 'enum', 'extern', 'false', 'fn', 'for', 'if', 'impl', 'in', 'let', 'loop', 'match',
                        'mod', 'move', 'mut', 'pub', 'ref', 'return', 'self', 'Self', 'static', 'struct', 'super', 'trait', 'true', 'type', 'unsafe', 'use',
                        'where', 'while', 'async', 'await', 'dyn', 'abstract', 'become', 'box', 'do', 'final', 'macro', 'override', 'priv', 'typeof', 'unsized',
                        'virtual', 'yield', 'try'}


@model('parse_str')
def _parse_str(ex, c, a):
    """syn::parse_str::<syn::Ident>(&str) on a concrete string"""
    if 'Ident' not in (c.generics or c.text):
        raise Unsupported('parse_str target ' + (c.generics or c.text))
    s_ = deref(a[0])
    if not isinstance(s_, str):
        raise Unsupported('parse_str of a symbolic string')
    ok = re.match(r'^[A-Za-z_][A-Za-z0-9_]*$', s_) is not None and s_ not in RUST_KEYWORDS_STRICT and s_ != '_'
    if ok:
        return Ok(Ident(s_, CALL_SITE, 'macro'))
    return Err(Obj('Error', None, [CALL_SITE, 'expected identifier'], ['span', 'message']))


@model('str::repeat')
def _str_repeat(ex, c, a):
    s_ = deref(a[0])
    n = a[1]
    if isinstance(s_, str) and isinstance(n, int):
        return s_ * n
    raise Unsupported('str::repeat with symbolic operands')


@model('str::chars')
def _str_chars2(ex, c, a):
    s_ = deref(a[0])
    if isinstance(s_, Ident):
        s_ = ident_string(s_)
    return Iter('chars', s_)
