"""Symbolic inputs: lazily initialised AST nodes (Sym) for the item and attribute structs the
macro's back end receives.  Every generator is deterministic in its key, so a clone of an
unresolved node resolves consistently (decisions are per key)."""

import z3
from .values import *
from . import setup as ssetup

KEYWORDS = ['self', 'Self', 'super', 'crate', 'fn', 'let', 'mut', 'ref', 'pub', 'mod', 'use', 'impl', 'trait', 'struct', 'enum',
            'type', 'where', 'for', 'in', 'if', 'else', 'match', 'loop', 'while', 'move', 'async', 'await', 'dyn', 'as', 'const',
            'static', 'unsafe', 'extern', 'true', 'false', 'return', 'break', 'continue', 'box', 'do', 'try', 'yield', '_']


def choice(key, alts, labels=None):
    """alts: list of callables (ex) -> value"""
    return Sym(key, len(alts), lambda ex, i: alts[i](ex), labels)


def sym_opt(key, gen):
    return Sym(key, 2, lambda ex, i: NONE() if i == 0 else Some(gen(ex)), ['None', 'Some'])


def sym_flag(key, tok):
    return Sym(key, 2, lambda ex, i: NONE() if i == 0 else Some(Tok(tok, Span(('input', key)))), ['absent', tok])


def sym_punct(key, maxlen, elem, sep='Comma', minlen=0):
    return Sym(key, maxlen - minlen + 1, lambda ex, i: Punct([elem(ex, f'{key}[{j}]', j) for j in range(i + minlen)], sep),
               [f'len={j}' for j in range(minlen, maxlen + 1)])


def sym_vec(key, maxlen, elem, minlen=0):
    return Sym(key, maxlen - minlen + 1, lambda ex, i: VecObj([elem(ex, f'{key}[{j}]', j) for j in range(i + minlen)]),
               [f'len={j}' for j in range(minlen, maxlen + 1)])


IDENT_RE = None


def ident_re():
    global IDENT_RE
    if IDENT_RE is None:
        lower = z3.Range('a', 'z')
        upper = z3.Range('A', 'Z')
        digit = z3.Range('0', '9')
        us = z3.Re('_')
        first = z3.Union(lower, upper, us)
        rest = z3.Union(lower, upper, digit, us)
        IDENT_RE = z3.Concat(first, z3.Loop(rest, 0, 7))
    return IDENT_RE


def sym_ident(ex, key, lowercase_only=False, label=None):
    """identifier with a symbolic spelling (ASCII, length <= 8, not a keyword)"""
    s = z3.String('id:' + key)
    seen = ex.notes.setdefault('sym_idents', {})
    if key not in seen:
        seen[key] = s
        ex.assume(z3.InRe(s, ident_re()))
        for kw in KEYWORDS:
            ex.assume(s != z3.StringVal(kw))
        if lowercase_only:
            ex.assume(z3.And(z3.StrToCode(z3.SubString(s, 0, 1)) >= 97, z3.StrToCode(z3.SubString(s, 0, 1)) <= 122))
    return Ident(s, Span(('input', label or key)), 'input')


class Bounds:
    def __init__(self, **kw):
        self.max_params = 2          # typed parameters after the deps parameter
        self.max_generics = 2
        self.max_where = 2
        self.max_deps_bounds = 2
        self.max_wrappers = 2        # & / paren around the deps type
        self.max_fn_attrs = 2
        self.max_param_attrs = 1
        self.pat_depth = 2
        self.pat_width = 2
        self.sym_names = False       # parameter / fn names as solver strings
        self.vis_alts = ('inherited', 'pub', 'pub_crate', 'pub_in')
        self.qualifiers = False      # const / unsafe / extern on the fn
        self.deps_kinds = None       # restrict the top-level alternatives of the dependency type
        self.deps_inner_kinds = None # ... and those below a `&` / parenthesis
        self.pat_kinds = None        # restrict the alternatives of a parameter pattern (labels of Gen.pattern)
        self.lifetime_bounds = False # bounds of generic type parameters may also be the lifetime `'a`
        self.bound_shapes = False    # `impl Trait` dependency bounds also as `ma::B0` / `B0<u8>` (same last segment, different trait)
        self.fixed = {}
        for k, v in kw.items():
            assert hasattr(self, k), k
            setattr(self, k, v)

    def describe(self):
        return {k: v for k, v in self.__dict__.items()}


class Gen:
    def __init__(self, prog, bounds):
        self.prog = prog
        self.A = prog.ast
        self.B = bounds

    # ---- leaves -----------------------------------------------------------------
    def opaque_type(self, name='u32'):
        return self.A.type_path_ident(self.A.ident(name))

    def lazy_type(self, key, pool=('u32', 'bool')):
        A = self.A
        # never inspected by the macro for non-deps parameters: stays unresolved along every path
        return choice(key, [lambda ex, n=n: A.type_path_ident(A.ident(n)) for n in pool]
                      + [lambda ex: A.type_ref(A.type_path_ident(A.ident('u32')))], list(pool) + ['&u32'])

    def bound(self, name):
        return self.A.bound_trait(self.A.path([self.A.ident(name)]))

    def bound_shaped(self, key, name):
        """a trait bound of an `impl Trait` dependency; with Bounds.bound_shapes the same last segment also comes as `ma::B0` and
        `B0<u8>` (different traits that a comparison by last identifier would conflate). Lazily chosen: costs nothing unless the
        macro (or the oracle) looks inside the path."""
        if not self.B.bound_shapes:
            return self.bound(name)
        A = self.A
        return choice(key + '.shape', [
            lambda ex: self.bound(name),
            lambda ex: A.bound_trait(A.path([A.ident('ma'), A.ident(name)])),
            lambda ex: A.bound_trait(A.path([A.ident(name)], args_last=A.angle_args([A.type_path_ident(A.ident('u8'))]))),
        ], ['ident', 'ma::path', 'generic<u8>'])

    def param_bound(self, key, name):
        """a bound of a generic type parameter: a trait, or (Bounds.lifetime_bounds) the lifetime `'a`"""
        if not self.B.lifetime_bounds:
            return self.bound(name)
        return choice(key + '.kind', [lambda ex: self.bound(name), lambda ex: self.A.bound_lifetime(self.A.lifetime('a'))], ['trait', "'a"])

    # ---- attributes ----------------------------------------------------------------
    def attr(self, key, nested=False):
        """attribute alphabet. rustc evaluates `cfg` / `cfg_attr` placed directly on the annotated item before it invokes
        the attribute macro (checked with the recorder), so a top-level `cfg` never reaches entrait: only nested
        positions (module fns, trait methods, impl-block fns, parameters) get the `cfg` alternative."""
        A = self.A
        alts = [
            lambda ex: A.attr_path(A.path([A.ident('async_trait')])),
            lambda ex: A.attr_path(A.path([A.ident('async_trait'), A.ident('async_trait')], leading=True)),
            lambda ex: A.attr_path(A.path([A.ident('mockall'), A.ident('automock')])),
            lambda ex: A.attr_list(A.path([A.ident('allow')]), [('I', 'unused', 'input')]),
            lambda ex: A.attr_doc(' docs'),
            lambda ex: A.attr_path(A.path([A.ident('inline')])),
            lambda ex: A.attr_list(A.path([A.ident('async_trait')]), [('P', '?', 'input'), ('I', 'Send', 'input')]),
            lambda ex: A.attr_path(A.path([A.ident('fw'), A.ident('async_trait')])),
        ]
        labels = ['async_trait', '::async_trait::async_trait', 'mockall::automock', 'allow(..)', 'doc', 'inline', 'async_trait(?Send)', 'fw::async_trait']
        if nested:
            alts.append(lambda ex: A.attr_list(A.path([A.ident('cfg')]), [('I', 'any', 'input'), ('G', '(', [], 'input')]))
            labels.append('cfg(any())')
        return choice(key, alts, labels)

    def attrs(self, key, maxlen, nested=False):
        return sym_vec(key, maxlen, lambda ex, k, j: self.attr(k, nested))

    def visibility(self, key, alts=None):
        A = self.A
        table = {
            'inherited': lambda ex: A.vis_inherited(),
            'pub': lambda ex: A.vis_pub(),
            'pub_crate': lambda ex: A.vis_restricted([A.ident('crate')]),
            'pub_super': lambda ex: A.vis_restricted([A.ident('super')]),
            'pub_in': lambda ex: A.vis_restricted([A.ident('crate'), A.ident('inner')], with_in=True),
        }
        alts = alts or self.B.vis_alts
        return choice(key, [table[a] for a in alts], list(alts))

    # ---- patterns ---------------------------------------------------------------------
    def binding(self, ex, key, default):
        if self.B.sym_names:
            idn = sym_ident(ex, key)
            # legal Rust: the bindings of one parameter list are pairwise distinct
            seen = ex.notes.setdefault('bindings', {})
            if key not in seen:
                for other in seen.values():
                    ex.assume(idn.name != other)
                seen[key] = idn.name
            return idn
        return self.A.ident(default)

    def pattern(self, key, default, depth=0):
        A = self.A
        B = self.B

        def ident(ex):
            return A.pat_ident(self.binding(ex, key + '.id', default))

        alts = [ident, lambda ex: A.pat_wild()]
        labels = ['ident', '_']
        if B.sym_names or True:
            alts += [lambda ex: A.pat_ident(self.binding(ex, key + '.id', default), mutable=True),
                     lambda ex: A.pat_ident(self.binding(ex, key + '.id', default), by_ref=True)]
            labels += ['mut ident', 'ref ident']
        if depth < B.pat_depth:
            def tup(ex):
                return A.pat_tuple([])
            alts.append(lambda ex: Obj('Pat', 'Tuple', [A.node('PatTuple', elems=sym_punct(
                key + '.elems', B.pat_width, lambda ex2, k, j: self.pattern(k, f'{default}{j}', depth + 1)))]))
            labels.append('(..)')
            alts.append(lambda ex: Obj('Pat', 'TupleStruct', [A.node('PatTupleStruct', qself=NONE(), path=A.path([A.ident('N')]), elems=sym_punct(
                key + '.elems', B.pat_width, lambda ex2, k, j: self.pattern(k, f'{default}{j}', depth + 1)))]))
            labels.append('N(..)')
            alts.append(lambda ex: A.pat_struct(A.path([A.ident('S')]), [
                A.field_pat(A.ident('fa'), Obj('Pat', 'Ident', [A.node('PatIdent', by_ref=NONE(), mutability=NONE(),
                                                                        ident=self.binding(ex, key + '.fa', 'fa'), subpat=NONE())]), True)]))
            labels.append('S{fa}')
            alts.append(lambda ex: A.pat_reference(self.pattern(key + '.ref', default, depth + 1)))
            labels.append('&p')
            alts.append(lambda ex: A.pat_ident(self.binding(ex, key + '.id', default), subpat=self.pattern(key + '.sub', default + 's', depth + 1)))
            labels.append('x @ p')
        if B.pat_kinds is not None:
            keep = [i for i, l in enumerate(labels) if l in B.pat_kinds]
            alts, labels = [alts[i] for i in keep], [labels[i] for i in keep]
        return choice(key, alts, labels)

    # ---- dependency type -------------------------------------------------------------------
    def deps_type(self, key, depth=0, under_ref=False):
        A = self.A
        B = self.B
        alts, labels = [], []

        def add(label, fn):
            allowed = B.deps_kinds if depth == 0 else B.deps_inner_kinds
            if allowed is None or label in allowed:
                alts.append(fn)
                labels.append(label)

        for nm in ('D', 'E', 'C'):
            add(f'path:{nm}', lambda ex, nm=nm: A.type_path_ident(A.ident(nm)))
        # `&impl A + B` is not writable in source (ambiguous `+`): several bounds directly under `&` need parentheses
        nb = 1 if under_ref else B.max_deps_bounds
        add('impl', lambda ex: A.enum('Type', 'ImplTrait', A.node('TypeImplTrait', bounds=sym_punct(
            key + '.impl', nb, lambda ex2, k, j: self.bound_shaped(k, f'B{j}'), 'Plus', minlen=1))))
        add('path2', lambda ex: A.type_path(A.path([A.ident('m'), A.ident('C')])))
        add('path::', lambda ex: A.type_path(A.path([A.ident('C')], leading=True)))
        add('generic-inst', lambda ex: A.type_path(A.path([A.ident('W')], args_last=A.angle_args([self.opaque_type()]))))
        add('tuple', lambda ex: A.type_tuple([self.opaque_type(), self.opaque_type('u8')]))
        if depth < B.max_wrappers:
            add('&', lambda ex: A.enum('Type', 'Reference', A.node(
                'TypeReference', lifetime=sym_opt(key + '.lt', lambda ex2: A.lifetime('a')), mutability=NONE(),
                elem=Obj('Box', None, [self.deps_type(key + '.&', depth + 1, under_ref=True)]))))
            add('paren', lambda ex: A.type_paren(self.deps_type(key + '.()', depth + 1)))
        return choice(key, alts, labels)

    # ---- generics --------------------------------------------------------------------------------
    def generic_param(self, key, j):
        A = self.A
        nm = ['D', 'E', 'F'][j]
        return choice(key, [
            lambda ex: A.enum('GenericParam', 'Type', A.node(
                'TypeParam', ident=A.ident(nm), colon_token=Some(Tok('Colon')),
                bounds=sym_punct(key + '.bounds', self.B.max_deps_bounds, lambda ex2, k, jj: self.param_bound(k, f'G{j}{jj}'), 'Plus'),
                eq_token=NONE(), default=NONE())),
            lambda ex: A.generic_lifetime_param(A.lifetime('a' if j == 0 else 'b')),
            lambda ex: A.generic_const_param(A.ident('N' + str(j)), self.opaque_type('usize')),
        ], [f'type {nm}', 'lifetime', 'const'])

    def where_pred(self, key, j):
        A = self.A
        alts = []
        labels = []
        for nm in ('D', 'E', 'X'):
            alts.append(lambda ex, nm=nm: A.where_pred_type(A.type_path_ident(A.ident(nm)), [self.bound(f'W{j}')]))
            labels.append(f'{nm}: W{j}')
        alts.append(lambda ex: A.where_pred_type(A.type_path(A.path([A.ident('D'), A.ident('Assoc')])), [self.bound(f'W{j}')]))
        labels.append('D::Assoc: W')
        alts.append(lambda ex: A.where_pred_type(A.type_ref(A.type_path_ident(A.ident('D'))), [self.bound(f'W{j}')]))
        labels.append('&D: W')
        alts.append(lambda ex: A.where_pred_lifetime(A.lifetime('a'), [A.lifetime('b')]))
        labels.append("'a: 'b")
        return choice(key, alts, labels)

    def generic_param_of_kind(self, key, j, kind):
        A = self.A
        nm = ['D', 'E', 'F'][j]
        if kind == 'T':
            return A.enum('GenericParam', 'Type', A.node(
                'TypeParam', ident=A.ident(nm), colon_token=Some(Tok('Colon')),
                bounds=sym_punct(key + '.bounds', self.B.max_deps_bounds, lambda ex2, k, jj: self.param_bound(k, f'G{j}{jj}'), 'Plus'),
                eq_token=NONE(), default=NONE()))
        if kind == 'L':
            return A.generic_lifetime_param(A.lifetime('a' if j == 0 else 'b'))
        return A.generic_const_param(A.ident('N' + str(j)), self.opaque_type('usize'))

    def generic_params(self, key, maxlen):
        """all legal kind sequences up to maxlen (lifetimes must precede type and const parameters)"""
        import itertools
        seqs = [()]
        for n in range(1, maxlen + 1):
            for s_ in itertools.product('LTC', repeat=n):
                seen_non_l = False
                ok = True
                for ch in s_:
                    if ch != 'L':
                        seen_non_l = True
                    elif seen_non_l:
                        ok = False
                if ok:
                    seqs.append(s_)
        return Sym(key, len(seqs), lambda ex, i: Punct([self.generic_param_of_kind(f'{key}[{j}]', j, k) for j, k in enumerate(seqs[i])], 'Comma'),
                   ['len=0' if not s_ else ''.join(s_) for s_ in seqs])

    def generics(self, key):
        A = self.A
        B = self.B
        params = self.generic_params(key + '.params', B.max_generics)
        where = sym_opt(key + '.where', lambda ex: A.node('WhereClause', predicates=sym_punct(
            key + '.preds', B.max_where, lambda ex2, k, j: self.where_pred(k, j), minlen=0)))
        return A.node('Generics', lt_token=Some(Tok('Lt')), params=params, gt_token=Some(Tok('Gt')), where_clause=where)

    # ---- signature ----------------------------------------------------------------------------------
    def first_param(self, key):
        A = self.A
        return choice(key, [
            lambda ex: A.enum('FnArg', 'Typed', A.node('PatType', attrs=self.attrs(key + '.attrs', self.B.max_param_attrs, nested=True),
                                                       pat=Obj('Box', None, [self.deps_pat(key + '.pat')]),
                                                       ty=Obj('Box', None, [self.deps_type(key + '.ty')]))),
            lambda ex: A.receiver(reference=True),
        ], ['typed', '&self'])

    def deps_pat(self, key):
        A = self.A
        if self.B.sym_names:
            return self.pattern(key, 'deps', depth=self.B.pat_depth)  # ident / wild / mut / ref
        return choice(key, [lambda ex: A.pat_ident(A.ident('deps')), lambda ex: A.pat_wild()], ['deps', '_'])

    def param(self, key, j):
        A = self.A
        return A.enum('FnArg', 'Typed', A.node('PatType', attrs=self.attrs(key + '.attrs', self.B.max_param_attrs, nested=True),
                                               pat=Obj('Box', None, [self.pattern(key + '.pat', ['pz', 'py', '_pb', 'pa', 'pe'][j % 5])]),
                                               ty=Obj('Box', None, [self.lazy_type(key + '.ty')])))

    def inputs(self, key):
        n = self.B.max_params + 1
        return Sym(key, n + 1, lambda ex, i: Punct(
            [self.first_param(key + '[0]') if j == 0 else self.param(f'{key}[{j}]', j) for j in range(i)], 'Comma'),
            [f'len={j}' for j in range(n + 1)])

    def fn_ident(self, ex, key, default='foo'):
        if self.B.sym_names:
            return sym_ident(ex, key, lowercase_only=True)
        return self.A.ident(default)

    def signature(self, key, name='foo'):
        A = self.A
        B = self.B

        def build(ex, _i):
            return A.node('Signature',
                          constness=sym_flag(key + '.const', 'Const') if B.qualifiers else NONE(),
                          asyncness=sym_flag(key + '.async', 'Async'),
                          unsafety=sym_flag(key + '.unsafe', 'Unsafe') if B.qualifiers else NONE(),
                          abi=sym_opt(key + '.abi', lambda ex2: A.abi('C')) if B.qualifiers else NONE(),
                          ident=self.fn_ident(ex, key + '.ident', name),
                          generics=self.generics(key + '.generics'),
                          inputs=self.inputs(key + '.inputs'),
                          variadic=NONE(),
                          output=choice(key + '.output', [lambda ex2: A.return_default(),
                                                          lambda ex2: A.return_type(self.lazy_type(key + '.ret'))], ['()', '-> T']))
        return Sym(key, 1, build)

    def body(self, label='body'):
        return TS([('RAW', label, [('G', '{', [('I', 'todo', 'input'), ('P', '!', 'input'), ('G', '(', [], 'input')], 'input')])])

    def input_fn(self, key='fn', name='foo'):
        A = self.A
        return ssetup.local_node(self.prog, 'InputFn', fn_attrs=self.attrs(key + '.attrs', self.B.max_fn_attrs),
                                 fn_vis=self.visibility(key + '.vis'), fn_sig=self.signature(key + '.sig', name),
                                 fn_body=self.body(key + '.body'))

    # ---- attribute structs ------------------------------------------------------------------------------
    def bool_opt(self, key, values=(True, False)):
        """Option<SpanOpt<bool>>: absent / present with a symbolic value"""
        def some(ex):
            v = z3.Bool('opt:' + key)
            return Some(Obj('SpanOpt', None, [v, Span(('input', key))]))
        return choice(key, [lambda ex: NONE(), some], ['absent', 'given'])

    def opts(self, key='opts', only=None):
        A = self.A

        def o(name):
            if only is not None and name not in only:
                return NONE()
            return self.bool_opt(f'{key}.{name}')
        fs = NONE()
        if only is None or 'future_send' in only:
            fs = choice(key + '.future_send', [lambda ex: NONE(),
                                               lambda ex: Some(Obj('SpanOpt', None, [Obj('FutureSend', None, [False]), Span(('input', '?Send'))]))],
                        ['absent', '?Send'])
        ma = NONE()
        if only is None or 'mock_api' in only:
            ma = sym_opt(key + '.mock_api', lambda ex: Obj('MockApiIdent', None, [A.ident('FooMock')]))
        return ssetup.local_node(self.prog, 'Opts', default_span=Span(('input', 'trait_ident')), no_deps=o('no_deps'), debug=NONE(),
                                 export=o('export'), future_send=fs, mock_api=ma, unimock=o('unimock'), mockall=o('mockall'))

    def crate_idents(self):
        sp = Span(('input', 'attr'))
        return ssetup.local_node(self.prog, 'CrateIdents', entrait=Ident('entrait', sp), core=Ident('core', sp),
                                 __unimock=Ident('__unimock', sp), unimock=Ident('unimock', sp))

    def fn_attr(self, key='attr', opts_only=None, trait_name='Foo'):
        A = self.A
        return ssetup.local_node(self.prog, 'EntraitFnAttr', trait_visibility=self.visibility(key + '.vis', ('inherited', 'pub', 'pub_crate', 'pub_super', 'pub_in')),
                                 trait_ident=A.ident(trait_name), opts=self.opts(key + '.opts', opts_only),
                                 crate_idents=self.crate_idents())


def deep_force(ex, v, seen=None):
    """resolve every lazy node below v (used for concretisation with default choices)"""
    if isinstance(v, Obj):
        for i in range(len(v.fields)):
            if isinstance(v.fields[i], Sym):
                ex.force_slot(v.fields, i)
            deep_force(ex, v.fields[i])
    elif isinstance(v, (VecObj, Punct)):
        for i in range(len(v.items)):
            if isinstance(v.items[i], Sym):
                ex.force_slot(v.items, i)
            deep_force(ex, v.items[i])
    elif isinstance(v, TS):
        pass
    return v


# ---------------------------------------------------------------------------
# module / impl-block / trait inputs
# ---------------------------------------------------------------------------

def _unknown_item(gen, key, j):
    """an item the macro does not recognise: kept as opaque tokens"""
    toks = [('I', 'struct', 'input'), ('I', f'Other{j}', 'input'), ('P', ';', 'input')]
    return ssetup.local_node(gen.prog, 'ItemUnknown', attrs=VecObj([]), vis=gen.A.vis_inherited(), tokens=TS([('RAW', key, toks)]))


def mod_item(gen, key, j, vis_alts=('pub', 'pub_crate')):
    A = gen.A

    def pubfn(ex):
        f = ssetup.local_node(gen.prog, 'InputFn', fn_attrs=gen.attrs(key + '.attrs', gen.B.max_fn_attrs, nested=True),
                              fn_vis=gen.visibility(key + '.vis', vis_alts), fn_sig=gen.signature(key + '.sig', f'f{j}'),
                              fn_body=gen.body(key + '.body'))
        return Obj('ModItem', 'PubFn', [Obj('Box', None, [f])])
    return choice(key, [pubfn, lambda ex: Obj('ModItem', 'Unknown', [_unknown_item(gen, key, j)])], ['pub fn', 'other item'])


def input_mod(gen, key='mod', max_items=2):
    A = gen.A
    return ssetup.local_node(gen.prog, 'InputMod', attrs=gen.attrs(key + '.attrs', gen.B.max_fn_attrs), vis=gen.visibility(key + '.vis'),
                             mod_token=Tok('Mod'), ident=A.ident('m'), brace_token=Tok('Brace'),
                             items=sym_vec(key + '.items', max_items, lambda ex, k, j: mod_item(gen, k, j)))


def impl_item(gen, key, j):
    def fn(ex):
        f = ssetup.local_node(gen.prog, 'InputFn', fn_attrs=gen.attrs(key + '.attrs', gen.B.max_fn_attrs, nested=True),
                              fn_vis=gen.visibility(key + '.vis', ('inherited', 'pub')), fn_sig=gen.signature(key + '.sig', f'f{j}'),
                              fn_body=gen.body(key + '.body'))
        return Obj('ImplItem', 'Fn', [Obj('Box', None, [f])])
    return choice(key, [fn, lambda ex: Obj('ImplItem', 'Unknown', [_unknown_item(gen, key, j)])], ['fn', 'other item'])


def input_impl(gen, key='impl', max_items=2):
    A = gen.A
    self_ty = choice(key + '.self_ty', [lambda ex: A.type_path_ident(A.ident('MyImpl')),
                                        lambda ex: A.type_path(A.path([A.ident('inner'), A.ident('MyImpl')]))], ['MyImpl', 'inner::MyImpl'])
    return ssetup.local_node(gen.prog, 'InputImpl', attrs=gen.attrs(key + '.attrs', gen.B.max_fn_attrs),
                             unsafety=sym_flag(key + '.unsafe', 'Unsafe') if gen.B.qualifiers else NONE(),
                             impl_token=Tok('Impl'), trait_path=A.path([A.ident('FooImpl')]), for_token=Tok('For'),
                             self_ty=self_ty, brace_token=Tok('Brace'),
                             items=sym_vec(key + '.items', max_items, lambda ex, k, j: impl_item(gen, k, j)))


def impl_attr(gen, key='attr'):
    kind = choice(key + '.kind', [lambda ex: Obj('ImplKind', 'Static', []), lambda ex: Obj('ImplKind', 'DynRef', [])], ['static', 'ref'])
    opts = ssetup.local_node(gen.prog, 'Opts', default_span=Span(('input', 'attr')), no_deps=NONE(), debug=NONE(), export=NONE(),
                             future_send=NONE(), mock_api=NONE(), unimock=NONE(), mockall=NONE())
    return ssetup.local_node(gen.prog, 'EntraitSimpleImplAttr', impl_kind=kind, opts=opts, crate_idents=gen.crate_idents())


# ---------------------------------------------------------------------------
# trait mode
# ---------------------------------------------------------------------------

def trait_method(gen, key, j, sl):
    A = gen.A
    B = gen.B

    def recv(ex, k):
        return choice(k, [lambda ex2: A.receiver(reference=True),
                          lambda ex2: A.receiver(reference=True, lifetime=A.lifetime('a')),
                          lambda ex2: A.receiver(reference=False)], ['&self', "&'a self", 'self'])

    def param(ex, k, jj):
        pat = choice(k + '.pat', [lambda ex2: A.pat_ident(A.ident(['q1', 'q0', 'q2'][jj % 3])),
                                  lambda ex2: A.pat_tuple([A.pat_ident(A.ident('ta')), A.pat_ident(A.ident('tb'))]),
                                  lambda ex2: A.pat_wild()], ['ident', '(a, b)', '_'])
        return A.enum('FnArg', 'Typed', A.node('PatType', attrs=gen.attrs(k + '.attrs', B.max_param_attrs, nested=True),
                                               pat=Obj('Box', None, [pat]), ty=Obj('Box', None, [gen.lazy_type(k + '.ty')])))
    nmax = B.max_params + 1
    inputs = Sym(key + '.inputs', nmax + 1, lambda ex, i: Punct([recv(ex, f'{key}.inputs[0]') if jj == 0 else param(ex, f'{key}.inputs[{jj}]', jj) for jj in range(i)], 'Comma'),
                 [f'len={jj}' for jj in range(nmax + 1)])
    sig = A.node('Signature', constness=NONE(), asyncness=sym_flag(key + '.async', 'Async'), unsafety=NONE(), abi=NONE(),
                 ident=A.ident(f'm{j}'), generics=gen.generics(key + '.generics'), inputs=inputs, variadic=NONE(),
                 output=choice(key + '.output', [lambda ex2: A.return_default(), lambda ex2: A.return_type(gen.lazy_type(key + '.ret'))], ['()', '-> T']))
    default = choice(key + '.default', [lambda ex: NONE(), lambda ex: Some(Obj('Opaque', None, ['block', [('G', '{', [('I', 'todo', 'input'), ('P', '!', 'input'), ('G', '(', [], 'input')], 'input')]]))],
                     ['required', 'provided'])
    return A.enum('TraitItem', 'Fn', A.node('TraitItemFn', attrs=gen.attrs(key + '.attrs', B.max_fn_attrs, nested=True), sig=sig, default=default,
                                              semi_token=NONE()))


def trait_item(gen, key, j, sl):
    A = gen.A
    alts = [lambda ex: trait_method(gen, key + '.fn', j, sl)]
    labels = ['fn']
    if sl.get('assoc_items', True):
        alts.append(lambda ex: A.enum('TraitItem', 'Type', Obj('Opaque', None, ['assoc-type', [('I', 'type', 'input'), ('I', f'Assoc{j}', 'input'), ('P', ';', 'input')]])))
        labels.append('type')
        alts.append(lambda ex: A.enum('TraitItem', 'Const', Obj('Opaque', None, ['assoc-const', [('I', 'const', 'input'), ('I', f'K{j}', 'input'), ('P', ':', 'input'), ('I', 'u32', 'input'), ('P', ';', 'input')]])))
        labels.append('const')
    return choice(key, alts, labels)


def input_trait(gen, key, sl):
    A = gen.A
    B = gen.B
    # `colon_token` is present exactly when supertraits are written (syn never yields supertraits without the colon)
    def sup_variant(ex, i):
        if i == 0:
            return (NONE(), Punct([], 'Plus'))
        b = A.bound_lifetime(A.lifetime('static')) if i == 1 else gen.bound('Sup')
        return (Some(Tok('Colon')), Punct([b], 'Plus'))
    sup_choice = Sym(key + '.supertraits', 3, lambda ex, i: Obj('tuple', None, list(sup_variant(ex, i))), ['len=0', "'static", 'Sup'])
    return _item_trait(gen, key, sl, sup_choice)


def _item_trait(gen, key, sl, sup_choice):
    A = gen.A
    B = gen.B
    # both fields are projections of one decision
    colon = Sym(key + '.supertraits', 3, lambda ex, i: sup_choice.gen(ex, i).fields[0], sup_choice.labels)
    supers = Sym(key + '.supertraits', 3, lambda ex, i: sup_choice.gen(ex, i).fields[1], sup_choice.labels)
    return A.node('ItemTrait', attrs=gen.attrs(key + '.attrs', B.max_fn_attrs), vis=gen.visibility(key + '.vis'),
                  unsafety=sym_flag(key + '.unsafe', 'Unsafe') if B.qualifiers else NONE(), auto_token=NONE(), restriction=NONE(),
                  ident=A.ident(sl.get('trait_name', 'Tr')), generics=gen.generics(key + '.generics'), colon_token=colon,
                  supertraits=supers,
                  items=sym_vec(key + '.items', sl.get('max_items', 2), lambda ex, k, j: trait_item(gen, k, j, sl)))


def trait_attr(gen, key, sl):
    A = gen.A
    sp = Span(('input', 'delegate_by'))

    def so(d):
        return Some(Obj('SpanOpt', None, [d, sp]))
    kinds = sl.get('delegation', ('none', 'self', 'ref', 'borrow', 'trait'))
    table = {
        'none': lambda ex: NONE(),
        'self': lambda ex: so(Obj('Delegate', 'BySelf', [])),
        'ref': lambda ex: so(Obj('Delegate', 'ByRef', [Obj('RefDelegate', 'AsRef', [])])),
        'borrow': lambda ex: so(Obj('Delegate', 'ByRef', [Obj('RefDelegate', 'Borrow', [])])),
        'trait': lambda ex: so(Obj('Delegate', 'ByTrait', [A.ident('DelegateTr')])),
    }
    dk = choice(key + '.delegate_by', [table[k] for k in kinds], list(kinds))
    it_alts = sl.get('impl_trait', ('none', 'some'))
    itab = {'none': lambda ex: NONE(),
            'some': lambda ex: Some(Obj('ImplTrait', None, [gen.visibility(key + '.impl_trait.vis', ('inherited', 'pub', 'pub_crate')), A.ident('TrImpl')]))}
    it = choice(key + '.impl_trait', [itab[k] for k in it_alts], list(it_alts))
    opts = gen.opts(key + '.opts', sl.get('opts_only', ('unimock', 'mockall', 'mock_api', 'future_send')))
    return ssetup.local_node(gen.prog, 'EntraitTraitAttr', impl_trait=it, opts=opts, delegation_kind=dk, crate_idents=gen.crate_idents())
