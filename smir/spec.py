"""Reference model ("what the properties say") evaluated against the executor's output on every path.

The spec runs *inside* the explored path, after the macro returned: when it needs to look at a part of the
input the macro never inspected it forces that node, which forks the exploration - so the product
(macro ; spec) is explored path-completely.  Obligations are python booleans or solver terms; the explorer
discharges `path condition AND NOT obligation` with z3."""

import re
import z3
from .values import *
from . import synprint, rsview
from .rsview import is_i, is_p, toks_eq, name_eq, show

EXPORT_VARIANTS = ('entrait_export', 'entrait_export_unimock')
UNIMOCK_VARIANTS = ('entrait_unimock', 'entrait_export_unimock')


def zand(*xs):
    xs = [x for x in xs if x is not True]
    if any(x is False for x in xs):
        return False
    if not xs:
        return True
    return z3.And([x if isinstance(x, z3.ExprRef) else z3.BoolVal(x) for x in xs]) if len(xs) > 1 else xs[0]


def zor(*xs):
    xs = [x for x in xs if x is not False]
    if any(x is True for x in xs):
        return True
    if not xs:
        return False
    return z3.Or([x if isinstance(x, z3.ExprRef) else z3.BoolVal(x) for x in xs]) if len(xs) > 1 else xs[0]


def znot(x):
    if isinstance(x, bool):
        return not x
    return z3.Not(x)


def ziff(a, b):
    if isinstance(a, bool) and isinstance(b, bool):
        return a == b
    a = a if isinstance(a, z3.ExprRef) else z3.BoolVal(a)
    b = b if isinstance(b, z3.ExprRef) else z3.BoolVal(b)
    return a == b


class Obligations:
    def __init__(self):
        self.items = []   # (prop, name, formula, detail)
        self.cls = {}

    def add(self, prop, name, formula, detail='', cls=''):
        """cls: the class of failing input this obligation instance speaks about (keys known findings by input role)"""
        self.items.append((prop, name, formula, detail if not cls else f'[{cls}] {detail}'))
        self.cls[len(self.items) - 1] = cls

    def eq_toks(self, prop, name, got, want, detail=''):
        r = toks_eq(got, want)
        self.add(prop, name, r, detail or f'got `{show(got, 160)}` want `{show(want, 160)}`')


# ---------------------------------------------------------------------------
# helpers over the input AST (forcing lazily through ex)
# ---------------------------------------------------------------------------

class In:
    def __init__(self, ex):
        self.ex = ex
        # nodes already decided on this path print resolved, undecided ones as one atom (same on input and output side)
        self.P = synprint.Printer(resolve=self.resolve_if_decided)
        self.P.known = lambda term: ex.notes.get('tk_known', {}).get(str(term), term)

    def resolve_if_decided(self, s):
        while isinstance(s, Sym) and (s.key in self.ex.decisions or s.n == 1 or self.ex.fixed_for(s) is not None):
            s = self.ex.force(s)
        return s

    def f(self, obj, name):
        """force and return field `name` of a node"""
        i = obj.names.index(name)
        return self.ex.force_slot(obj.fields, i)

    def unbox(self, v):
        v = self.ex.force(v)
        while isinstance(v, Obj) and v.ty == 'Box':
            v = self.ex.force_slot(v.fields, 0)
        return v

    def items(self, obj, name):
        c = self.f(obj, name)
        for i in range(len(c.items)):
            self.ex.force_slot(c.items, i)
        return c.items

    def toks(self, node):
        out = []
        self.P.node(node, out)
        return out

    def opt_given(self, opts, name):
        o = self.f(opts, name)
        return o.variant == 'Some'

    def opt_val(self, opts, name, default):
        o = self.f(opts, name)
        if o.variant == 'Some':
            return o.fields[0].fields[0]
        return default


def effective_options(I, attr0, variant, mode):
    """the option semantics of C10 / C17: explicit value wins, else the macro-variant fallback, else false"""
    opts = I.f(attr0, 'opts')
    e = {}
    e['no_deps'] = I.opt_val(opts, 'no_deps', False)
    e['export'] = I.opt_val(opts, 'export', variant in EXPORT_VARIANTS)
    e['unimock'] = I.opt_val(opts, 'unimock', variant in UNIMOCK_VARIANTS)
    e['mockall'] = I.opt_val(opts, 'mockall', False)
    e['mock_api'] = I.opt_given(opts, 'mock_api')
    e['mock_api_ident'] = I.f(opts, 'mock_api').fields[0].fields[0] if e['mock_api'] else None
    e['future_send'] = not I.opt_given(opts, 'future_send')
    if mode == 'trait':
        e['unimock_derive'] = e['unimock']
    else:
        e['unimock_derive'] = zand(e['unimock'], e['mock_api'])
    e['any_derive'] = zor(e['unimock_derive'], e['mockall'])
    return e


def strip_wrappers(I, ty):
    """& and parens around the dependency type -> (inner, is_ref, lifetime node|None)"""
    is_ref = False
    lt = None
    first = True
    while True:
        ty = I.unbox(ty)
        if ty.variant == 'Reference':
            r = I.ex.force_slot(ty.fields, 0)
            if first:
                is_ref = True
                l = I.f(r, 'lifetime')
                lt = l.fields[0] if l.variant == 'Some' else None
            first = False
            ty = I.f(r, 'elem')
        elif ty.variant == 'Paren':
            first = False
            ty = I.f(I.ex.force_slot(ty.fields, 0), 'elem')
        else:
            return ty, is_ref, lt


class Deps:
    def __init__(self, kind):
        self.kind = kind          # nodeps | generic | concrete | error | none
        self.bounds = []          # list of bound token lists (generic)
        self.by_ref = False
        self.lifetime = None
        self.ident = None         # generic param ident name
        self.concrete_toks = None
        self.error = None
        self.outer_ref = False


def classify_deps(I, sig, no_deps):
    """what C03/C04/C05 call the dependency parameter. no_deps: python bool (already branched)"""
    ex = I.ex
    if no_deps:
        return Deps('nodeps')
    inputs = I.items(sig, 'inputs')
    if not inputs:
        d = Deps('error')
        d.error = "Function must have a dependency 'receiver' as its first parameter"
        return d
    first = inputs[0]
    if first.variant == 'Receiver':
        d = Deps('error')
        d.error = 'Function cannot have a self receiver'
        return d
    pt = ex.force_slot(first.fields, 0)
    ty = I.unbox(I.f(pt, 'ty'))
    outer_ref = ty.variant == 'Reference'
    outer_lt = None
    if outer_ref:
        r = ex.force_slot(ty.fields, 0)
        l = I.f(r, 'lifetime')
        outer_lt = l.fields[0] if l.variant == 'Some' else None
    inner, _r, _l = strip_wrappers(I, ty)
    generics = I.f(sig, 'generics')

    def finish(d):
        d.outer_ref = outer_ref
        d.lifetime = outer_lt
        return d

    if inner.variant == 'ImplTrait':
        d = Deps('generic')
        it = ex.force_slot(inner.fields, 0)
        d.bounds = [I.toks(b) for b in I.items(it, 'bounds')]
        return finish(d)
    if inner.variant == 'Path':
        tp = ex.force_slot(inner.fields, 0)
        if I.f(tp, 'qself').variant == 'Some':
            d = Deps('error')
            d.error = 'No self allowed'
            return d
        path = I.f(tp, 'path')
        if I.f(path, 'leading_colon').variant == 'Some':
            d = Deps('error')
            d.error = 'No leading colon allowed'
            return d
        segs = I.items(path, 'segments')
        if len(segs) == 1:
            nm = I.f(segs[0], 'ident').name
            # a named generic *type* parameter?
            for gp in I.items(generics, 'params'):
                if gp.variant == 'Type':
                    tpar = ex.force_slot(gp.fields, 0)
                    if I.f(tpar, 'ident').name == nm:
                        d = Deps('generic')
                        d.ident = nm
                        d.bounds = [I.toks(b) for b in I.items(tpar, 'bounds')]
                        wc = I.f(generics, 'where_clause')
                        if wc.variant == 'Some':
                            for pred in I.items(ex.force_slot(wc.fields, 0), 'predicates'):
                                if pred.variant == 'Type':
                                    p = ex.force_slot(pred.fields, 0)
                                    bt = I.unbox(I.f(p, 'bounded_ty'))
                                    if is_plain_ident_type(I, bt, nm):
                                        d.bounds += [I.toks(b) for b in I.items(p, 'bounds')]
                        return finish(d)
        d = Deps('concrete')
        d.concrete_toks = I.toks(inner)
        return finish(d)
    d = Deps('concrete')
    d.concrete_toks = I.toks(inner)
    return finish(d)


def is_plain_ident_type(I, ty, nm):
    if ty.variant != 'Path':
        return False
    tp = I.ex.force_slot(ty.fields, 0)
    if I.f(tp, 'qself').variant == 'Some':
        return False
    path = I.f(tp, 'path')
    if I.f(path, 'leading_colon').variant == 'Some':
        return False
    segs = I.items(path, 'segments')
    return len(segs) == 1 and I.f(segs[0], 'ident').name == nm


def attr_kind(I, attr):
    """async_trait | automock | other, by the last path segment (what entrait documents it looks at)"""
    meta = I.f(attr, 'meta')
    inner = I.ex.force_slot(meta.fields, 0)
    path = inner if meta.variant == 'Path' else I.f(inner, 'path')
    segs = I.items(path, 'segments')
    if not segs:
        return 'other'
    nm = I.f(segs[-1], 'ident').name
    if nm == 'async_trait':
        return 'async_trait'
    if nm == 'automock':
        return 'automock'
    return 'other'


# ---------------------------------------------------------------------------
# the expansion view
# ---------------------------------------------------------------------------

def attr_path_is(attr_toks, segs):
    """attribute content starts with the path `:: a :: b ...` (leading :: optional when segs given without)"""
    want = []
    for s_ in segs:
        want += [('P', '::'), ('I', s_)]
    got = [(t[0], t[1]) for t in attr_toks[:len(want)]]
    return got == want


def find_attr(attrs, pred):
    return [a for a in attrs if pred(a)]


def unwrap_cfg_attr_test(a):
    """`cfg_attr ( test , X... )` -> X tokens or None"""
    if len(a) == 2 and is_i(a[0], 'cfg_attr') and a[1][0] == 'G' and a[1][1] == '(':
        inner = a[1][2]
        if len(inner) >= 2 and is_i(inner[0], 'test') and is_p(inner[1], ','):
            return inner[2:]
    return None


UNIMOCK_PATH = ['entrait', '__unimock', 'unimock']
MOCKALL_PATH = ['mockall', 'automock']


def mock_attrs(trait_item):
    """-> dict(unimock=(present, gated, params_toks), mockall=(present, gated))"""
    res = {'unimock': (False, None, None), 'mockall': (False, None, None)}
    for a in trait_item.attrs:
        gated = False
        body = a
        u = unwrap_cfg_attr_test(a)
        if u is not None:
            gated = True
            body = u
        if attr_path_is(body, UNIMOCK_PATH):
            res['unimock'] = (True, gated, body[6][2] if len(body) > 6 and body[6][0] == 'G' else [])
        elif attr_path_is(body, MOCKALL_PATH):
            res['mockall'] = (True, gated, None)
    return res


# ---------------------------------------------------------------------------
# fn / mod mode
# ---------------------------------------------------------------------------

ERR_PREFIX = {
    "Function must have a dependency 'receiver' as its first parameter": "Function must have a dependency 'receiver' as its first parameter",
}


def spec_fn_like(ex, mode, variant, attr0, fns, out_value, O, mod_info=None):
    """fns: list of pristine InputFn nodes that must become trait methods, in order.
    out_value: Result<TokenStream, Error> returned by the macro on this path."""
    I = In(ex)
    eff = effective_options(I, attr0, variant, mode)
    no_deps = ex.branch(eff['no_deps'], 'spec:no_deps') if not isinstance(eff['no_deps'], bool) else eff['no_deps']
    deps = []
    for f in fns:
        sig = I.f(f, 'fn_sig')
        deps.append(classify_deps(I, sig, no_deps))
        ins = I.items(sig, 'inputs')
        if no_deps and ins and ins[0].variant == 'Receiver':
            return None   # `self` in a free function with no_deps: not legal Rust, outside every property's precondition
    # ---- documented rejections (C15) ----------------------------------------------------------------
    expect_err = None
    for d in deps:
        if d.kind == 'error':
            expect_err = d.error
            break
    if expect_err is None and mode in ('mod', 'impl'):
        for d in deps:
            if d.kind == 'concrete':
                expect_err = ('Using concrete dependencies in a module is an anti-pattern' if mode == 'mod'
                              else 'Cannot (yet) use concrete dependency in an impl block')
                break
    if mode == 'fn' and expect_err is None and any(d.kind == 'concrete' for d in deps):
        O.add('C05', 'concrete-dependency-type-is-accepted', out_value.variant == 'Ok',
              f'the macro rejected a concrete dependency type: `{out_value.fields[0].fields[1] if out_value.variant == "Err" else ""}`')
    if out_value.variant == 'Err':
        msg = out_value.fields[0].fields[1]
        O.add('C15', 'error-only-for-documented-misuse', expect_err is not None and isinstance(msg, str) and msg.startswith(expect_err),
              f'macro reported `{msg}`; expected {"`" + expect_err + "`" if expect_err else "a successful expansion"}')
        sp = out_value.fields[0].fields[0]
        O.add('C15', 'error-span-at-input-token', isinstance(sp, Span) and sp.origin != 'call_site', f'span {sp}')
        return None
    O.add('C15', 'misuse-rejected', expect_err is None, f'expected rejection `{expect_err}` but the macro expanded')
    if expect_err is not None:
        return None
    for f in fns:
        touch_fn(I, f)
    toks = I.P.flat(out_value.fields[0].toks)
    return dict(I=I, eff=eff, deps=deps, no_deps=no_deps, toks=toks)


def touch_fn(I, f):
    """force every input node the expectations below depend on, BEFORE anything is printed, so that input and output
    are printed against the same set of decisions"""
    ex = I.ex
    for a in I.items(f, 'fn_attrs'):
        attr_kind(I, a)
    I.f(f, 'fn_vis')
    sig = I.f(f, 'fn_sig')
    for n in ('constness', 'asyncness', 'unsafety', 'ident'):
        I.f(sig, n)
    abi = I.f(sig, 'abi')
    if abi.variant == 'Some':
        I.f(abi.fields[0], 'name')
    out = I.f(sig, 'output')
    gen = I.f(sig, 'generics')
    for gp in I.items(gen, 'params'):
        inner = ex.force_slot(gp.fields, 0)
        if gp.variant == 'Type':
            I.f(inner, 'ident')
            I.items(inner, 'bounds')
    wc = I.f(gen, 'where_clause')
    if wc.variant == 'Some':
        for pred in I.items(ex.force_slot(wc.fields, 0), 'predicates'):
            p = ex.force_slot(pred.fields, 0)
            if pred.variant == 'Type':
                bt = I.unbox(I.f(p, 'bounded_ty'))
                if bt.variant == 'Path':
                    is_plain_ident_type(I, bt, '')
                I.items(p, 'bounds')
    for fa in I.items(sig, 'inputs'):
        inner = ex.force_slot(fa.fields, 0)
        if fa.variant == 'Typed':
            I.items(inner, 'attrs')
            pat = I.unbox(I.f(inner, 'pat'))
            pi = ex.force_slot(pat.fields, 0)
            if pat.variant == 'Ident':
                for n in ('by_ref', 'mutability', 'ident', 'subpat'):
                    I.f(pi, n)
            I.f(inner, 'ty')


def fn_method_expectations(I, f, d, eff, O, method_trait, method_impl, mode, fn_path_prefix, tag, sub_async_trait):
    """obligations relating ONE input fn to its trait method and delegating method"""
    ex = I.ex
    sig = I.f(f, 'fn_sig')
    fname = I.f(sig, 'ident').name
    is_async = I.f(sig, 'asyncness').variant == 'Some'
    inputs = I.items(sig, 'inputs')
    # ---- C01: delegating body ---------------------------------------------------------------------------
    mt, mi = method_trait, method_impl
    O.add('C01', f'{tag}:method-named-like-fn', zand(name_eq(mt.name[1], fname), name_eq(mi.name[1], fname)))
    rewritten = is_async and not sub_async_trait
    if not rewritten:
        O.add('C03', f'{tag}:trait-and-impl-signature-identical', toks_eq(sig_tokens(mt), sig_tokens(mi)),
              f'trait `{show(sig_tokens(mt), 200)}` impl `{show(sig_tokens(mi), 200)}`')
    else:
        # `async fn` in the impl against `fn -> impl Future` in the trait: everything but `async` and the return type coincides
        same = zand(len(mt.params) == len(mi.params),
                    *[zand(toks_eq(a.pat, b.pat), toks_eq(a.ty, b.ty), a.receiver == b.receiver) for a, b in zip(mt.params, mi.params)])
        same = zand(same, len(mt.generics) == len(mi.generics), *[toks_eq(a, b) for a, b in zip(mt.generics, mi.generics)],
                    len(mt.where) == len(mi.where), *[toks_eq(a, b) for a, b in zip(mt.where, mi.where)])
        O.add('C03', f'{tag}:trait-and-impl-signature-identical', same, f'trait `{show(sig_tokens(mt), 200)}` impl `{show(sig_tokens(mi), 200)}`')
    params = [p for p in mi.params if p.receiver is None]
    recv = [p for p in mi.params if p.receiver is not None]
    names = [p.name() for p in params]
    # the trait declaration is what callers, mocks and hand-written impls see: the same naming rules hold there
    t_names = [p.name() for p in mt.params if p.receiver is None]
    O.add('C16', f'{tag}:trait-method-parameters-are-plain-identifiers', all(n is not None for n in t_names),
          f'patterns {[show(p.pat) for p in mt.params if p.receiver is None]}')
    for k_, n_ in enumerate(t_names):
        if n_ is not None and not (mode in ('impl_static', 'impl_dyn') and k_ == 0):
            O.add('C16', f'{tag}:trait-method-parameter-does-not-shadow-the-fn', znot(name_eq(n_, fname)), f'trait method parameter {n_}, the fn {fname}',
                  cls='generated-for-a-pattern' if isinstance(n_, str) and re.match(r'^_*arg\d+$', n_) else '')
    bad_modes = sorted({str(t[1]) for p in params if p.name() is None for t in p.pat if t[0] in ('I', 'P') and isinstance(t[1], str) and t[1] in ('mut', 'ref', '@')})
    O.add('C16', f'{tag}:every-parameter-is-a-plain-identifier', all(n is not None for n in names),
          f'patterns {[show(p.pat) for p in params]}', cls=('binding-mode-kept:' + '+'.join(bad_modes)) if bad_modes else '')
    # forwarding happens by name: a parameter that is still a pattern cannot be forwarded (C01 for fn / mod inputs, C07 for impl blocks)
    O.add('C07' if mode in ('impl_static', 'impl_dyn') else 'C01', f'{tag}:every-argument-can-be-forwarded-by-name', all(n is not None for n in names),
          f'patterns {[show(p.pat) for p in params]}')
    if any(n is None for n in names):
        return
    # expected receiver
    if d.kind == 'nodeps':
        exp_recv = dict(ref=True, lifetime=None)
        n_user = len(inputs)
        user_params = inputs
    else:
        exp_recv = dict(ref=d.outer_ref, lifetime=d.lifetime)
        n_user = len(inputs) - 1
        user_params = inputs[1:]
    impl_static = mode == 'impl_static'
    impl_dyn = mode == 'impl_dyn'
    if impl_static:
        # (__impl: &Impl<T>, args..)
        O.add('C07', f'{tag}:static-receiver-is-__impl', len(recv) == 0 and len(params) >= 1 and isinstance(names[0], str) and names[0] == '__impl'
              if d.kind != 'nodeps' or True else True, f'params {names}')
        fwd_names = names
        O.add('C01', f'{tag}:arity', len(params) == n_user + 1, f'{len(params)} generated vs {n_user}+1 declared')
    elif impl_dyn:
        O.add('C07', f'{tag}:dynamic-receiver-is-&self-then-__impl', len(recv) == 1 and len(params) >= 1 and isinstance(names[0], str) and names[0] == '__impl',
              f'recv {len(recv)} params {names}')
        fwd_names = names
        O.add('C01', f'{tag}:arity', len(params) == n_user + 1, f'{len(params)} generated vs {n_user}+1 declared')
    else:
        O.add('C01', f'{tag}:one-receiver', len(recv) == 1 and mi.params[0].receiver is not None, f'{len(recv)} receivers')
        if recv:
            r = recv[0].receiver
            O.add('C01', f'{tag}:receiver-shape', r['ref'] == exp_recv['ref'] and not r['mut'],
                  f'generated receiver ref={r["ref"]} expected ref={exp_recv["ref"]}')
            if exp_recv['ref'] and exp_recv['lifetime'] is not None:
                O.add('C03', f'{tag}:receiver-lifetime-kept', r['lifetime'] is not None and toks_eq([r['lifetime']], I.toks(exp_recv['lifetime'])))
            else:
                O.add('C03', f'{tag}:no-receiver-lifetime-invented', r['lifetime'] is None)
        O.add('C01', f'{tag}:arity', len(params) == n_user, f'{len(params)} generated vs {n_user} declared')
        fwd_names = names
    # body shape
    body = list(mi.body or [])
    exp = []
    if impl_static or impl_dyn:
        exp += [('I', 'Self'), ('P', '::')]
    exp.append(('I', fname))
    args = []
    if d.kind != 'nodeps' and not (impl_static or impl_dyn):
        args.append([('I', 'self')])
    if impl_static or impl_dyn:
        # __impl is forwarded first unless no deps
        if d.kind == 'nodeps':
            fwd = fwd_names[1:]
        else:
            fwd = fwd_names
    else:
        fwd = fwd_names
    for n in fwd:
        args.append([('I', n)])
    arg_toks = []
    for k, a in enumerate(args):
        if k:
            arg_toks.append(('P', ','))
        arg_toks += a
    exp.append(('G', '(', arg_toks))
    if is_async:
        exp += [('P', '.'), ('I', 'await')]
    body = strip_trailing_commas(body)
    O.add('C01', f'{tag}:delegating-body-is-fn(self, args in order)[.await]', toks_eq(body, exp),
          f'body `{show(body, 200)}` expected `{show(exp, 200)}`')
    O.add('C12', f'{tag}:await-iff-async', has_await(body) == is_async, f'body `{show(body, 120)}` async={is_async}')
    # ---- C16: names ------------------------------------------------------------------------------------------
    user_names = fwd_names[1:] if (impl_static or impl_dyn) else fwd_names
    conds = []
    for a_i in range(len(user_names)):
        for b_i in range(a_i + 1, len(user_names)):
            conds.append(znot(name_eq(user_names[a_i], user_names[b_i])))
    def name_form(k):
        """how the k-th generated name came about (keys known findings by the kind of collision)"""
        n = user_names[k]
        if isinstance(n, z3.ExprRef) and n.decl().kind() == z3.Z3_OP_SEQ_CONCAT:
            return 'renamed-after-the-fn'
        if isinstance(n, str) and ((isinstance(fname, str) and n == fname + '_') or re.match(r'^_*arg\d+_$', n)):
            return 'renamed-after-the-fn'   # also a lifted / generated name that was then renamed
        if len(user_names) == len(user_params) and user_params[k].variant == 'Typed':
            pk = I.unbox(I.f(ex.force_slot(user_params[k].fields, 0), 'pat')).variant
            if pk != 'Ident':
                return 'generated-for-a-pattern'
        return 'as-written'

    def written_bindings():
        out = []

        def walk(toks):
            for t in toks:
                if t[0] == 'G':
                    walk(t[2])
                elif t[0] == 'I' and isinstance(t[1], str) and t[1][:1].islower() and t[1] not in ('mut', 'ref'):
                    out.append(t[1])
        for up in user_params:
            if up.variant == 'Typed':
                walk(I.toks(I.unbox(I.f(ex.force_slot(up.fields, 0), 'pat'))))
        return out
    wb = written_bindings()
    legal_bindings = len(wb) == len(set(wb))   # one name bound twice in a parameter list is not legal Rust (E0415): outside the property
    for a_i in range(len(user_names) if legal_bindings else 0):
        for b_i in range(a_i + 1, len(user_names)):
            O.add('C16', f'{tag}:generated-names-pairwise-distinct', znot(name_eq(user_names[a_i], user_names[b_i])),
                  f'parameters {a_i} and {b_i} of {user_names}', cls='~'.join(sorted([name_form(a_i), name_form(b_i)])))
    for k, n in enumerate(user_names):
        kind = ''
        if len(user_names) == len(user_params) and user_params[k].variant == 'Typed':
            pk = I.unbox(I.f(ex.force_slot(user_params[k].fields, 0), 'pat')).variant
            kind = 'plain-binding' if pk == 'Ident' else ('wildcard' if pk == 'Wild' else 'destructuring:' + pk)
        O.add('C16', f'{tag}:param{k}:generated-name-does-not-shadow-the-fn', znot(name_eq(n, fname)), f'parameter {k} ({kind}) is named {n}, the fn {fname}', cls=kind)
    if len(user_names) == len(user_params):
        for k, up in enumerate(user_params):
            pt = ex.force_slot(up.fields, 0) if up.variant == 'Typed' else None
            if pt is None:
                continue
            pat = I.unbox(I.f(pt, 'pat'))
            if pat.variant == 'Ident':
                pid = ex.force_slot(pat.fields, 0)
                bn = I.f(pid, 'ident').name
                # a plain binding keeps its name unless it equals the fn name
                same_as_fn = name_eq(bn, fname)
                keep = zor(same_as_fn, name_eq(user_names[k], bn))
                O.add('C16', f'{tag}:param{k}:plain-binding-keeps-its-name', keep, f'binding {bn} generated {user_names[k]}')
                # and the generated parameter is a *plain* identifier: no `mut` / `ref` / `@ sub-pattern` left over
                ptoks = params[k + (1 if (impl_static or impl_dyn) else 0)].pat
                O.add('C16', f'{tag}:param{k}:binding-mode-stripped', len(ptoks) == 1, f'pattern `{show(ptoks)}`')
            # parameter types are untouched (C03)
            gen_p = params[k + (1 if (impl_static or impl_dyn) else 0)]
            O.add('C03', f'{tag}:param{k}:type-unchanged', toks_eq(gen_p.ty, I.toks(I.f(pt, 'ty'))),
                  f'`{show(gen_p.ty, 80)}` vs `{show(I.toks(I.f(pt, "ty")), 80)}`')
            O.add('C18', f'{tag}:param{k}:attributes-stripped', len(gen_p.attrs) == 0 and
                  all(len(p.attrs) == 0 for p in mt.params), 'parameter attribute on a generated signature')
    # ---- C03: qualifiers, generics, return ------------------------------------------------------------------------
    want_quals = []
    if I.f(sig, 'constness').variant == 'Some':
        want_quals.append('const')
    async_kept = is_async and sub_async_trait
    if I.f(sig, 'unsafety').variant == 'Some':
        pass
    q_in = qualifiers_of(I, sig)
    q_trait = [q for q in mt.quals]
    exp_q = [q for q in q_in if q != 'async' or async_kept]
    O.add('C08', f'{tag}:const-fn-yields-a-non-const-trait-method', 'const' not in q_trait and 'const' not in mi.quals,
          f'trait method qualifiers {q_trait}: a `const fn` cannot be a trait method (E0379)', cls='const-fn')
    exp_q = [q for q in exp_q if q != 'const']
    q_in_nc = [q for q in q_in if q != 'const']
    O.add('C03', f'{tag}:qualifiers-kept', [q for q in q_trait if q != 'const'] == exp_q and [q for q in mi.quals if q != 'const'] == q_in_nc, f'input {q_in} trait {q_trait} impl {mi.quals}')
    out_node = I.f(sig, 'output')
    ret_in = I.toks(out_node.fields[1]) if out_node.variant == 'Type' else None
    if is_async and not sub_async_trait:
        # fn f(..) -> impl ::core::future::Future<Output = R> [+ ::core::marker::Send]
        want = [('I', 'impl'), ('P', '::'), ('I', 'core'), ('P', '::'), ('I', 'future'), ('P', '::'), ('I', 'Future'), ('P', '<'),
                ('I', 'Output'), ('P', '=')] + (ret_in if ret_in is not None else [('G', '(', [])]) + [('P', '>')]
        send = [('P', '+'), ('P', '::'), ('I', 'core'), ('P', '::'), ('I', 'marker'), ('P', '::'), ('I', 'Send')]
        got = mt.ret or []
        has_send = len(got) >= len(send) and toks_eq(got[-len(send):], send) is True
        base = got[:-len(send)] if has_send else got
        O.add('C12', f'{tag}:future-output-is-the-declared-return-type', toks_eq(base, want), f'`{show(got, 200)}` want `{show(want, 200)}`')
        O.add('C12', f'{tag}:send-bound-iff-not-?Send', has_send == eff['future_send'], f'Send={has_send} future_send={eff["future_send"]}')
        O.add('C12', f'{tag}:trait-method-not-async', 'async' not in mt.quals)
        O.add('C12', f'{tag}:impl-method-keeps-declared-output', (mi.ret is None and ret_in is None) or
              (mi.ret is not None and ret_in is not None and toks_eq(mi.ret, ret_in)), f'`{show(mi.ret or [], 80)}`')
        O.add('C14', f'{tag}:no-boxing', not contains_ident(got, ('Box', 'dyn', 'Pin')), f'`{show(got, 120)}`')
    else:
        O.add('C03', f'{tag}:return-type-unchanged', (mt.ret is None and ret_in is None) or (mt.ret is not None and ret_in is not None and toks_eq(mt.ret, ret_in)),
              f'`{show(mt.ret or [], 80)}` vs `{show(ret_in or [], 80)}`')
    # generics on the method: lifetimes and const params stay, type params go
    gen_in = I.f(sig, 'generics')
    keep = []
    for gp in I.items(gen_in, 'params'):
        if gp.variant != 'Type':
            keep.append(I.toks(gp))
    keep_lt = [g for g, gp in zip(keep, [gp for gp in I.items(gen_in, 'params') if gp.variant != 'Type']) if gp.variant == 'Lifetime']
    got_lt = [g for g in mt.generics if g and g[0][0] == 'LT']
    O.add('C03', f'{tag}:method-keeps-the-lifetime-parameters', len(got_lt) == len(keep_lt) and zand(*[toks_eq(a, b) for a, b in zip(got_lt, keep_lt)]),
          f'{[show(g) for g in mt.generics]} vs {[show(g) for g in keep_lt]}')
    n_const = sum(1 for gp in I.items(gen_in, 'params') if gp.variant == 'Const')
    got_const = [g for g in mt.generics if g and is_i(g[0], 'const')]
    O.add('C03', f'{tag}:const-generic-not-declared-on-both-trait-and-method', not (n_const and got_const),
          f'const parameter(s) {[show(g) for g in got_const]} are lifted to the trait and also left on the method (E0403)', cls='const-generic-declared-twice')
    O.add('C03', f'{tag}:no-type-parameter-left-on-the-method', not [g for g in mt.generics if g and g[0][0] == 'I' and not is_i(g[0], 'const')],
          f'{[show(g) for g in mt.generics]}')
    # where predicates on the method: all but those on the deps ident
    keepw = []
    wc = I.f(gen_in, 'where_clause')
    if wc.variant == 'Some':
        for pred in I.items(ex.force_slot(wc.fields, 0), 'predicates'):
            if pred.variant == 'Type' and d.kind == 'generic' and d.ident is not None:
                p = ex.force_slot(pred.fields, 0)
                if is_type_eq_ident(I, I.unbox(I.f(p, 'bounded_ty')), d.ident):
                    continue
            keepw.append(I.toks(pred))
    O.add('C03', f'{tag}:method-where-clause', len(mt.where) == len(keepw) and zand(*[toks_eq(a, b) for a, b in zip(mt.where, keepw)]),
          f'{[show(g) for g in mt.where]} vs {[show(g) for g in keepw]}')


def strip_trailing_commas(toks):
    """a trailing comma inside a call's parentheses is not part of the call shape"""
    out = []
    for t in toks:
        if t[0] == 'G':
            inner = strip_trailing_commas(t[2])
            if inner and is_p(inner[-1], ','):
                inner = inner[:-1]
            out.append((t[0], t[1], inner) + tuple(t[3:]))
        else:
            out.append(t)
    return out


def is_type_eq_ident(I, ty, nm):
    if ty.variant != 'Path':
        return False
    tp = I.ex.force_slot(ty.fields, 0)
    path = I.f(tp, 'path')
    segs = I.items(path, 'segments')
    return len(segs) == 1 and I.f(segs[0], 'ident').name == nm


def qualifiers_of(I, sig):
    q = []
    if I.f(sig, 'constness').variant == 'Some':
        q.append('const')
    if I.f(sig, 'asyncness').variant == 'Some':
        q.append('async')
    if I.f(sig, 'unsafety').variant == 'Some':
        q.append('unsafe')
    abi = I.f(sig, 'abi')
    if abi.variant == 'Some':
        q.append('extern')
        nm = I.f(abi.fields[0], 'name')
        if nm.variant == 'Some':
            q.append(nm.fields[0].fields[0])
    return q


def sig_tokens(m, strip_async_rewrite=False):
    """all tokens of a method item up to its body / semicolon, without attributes"""
    toks = list(m.tokens)
    # drop attrs
    k = 0
    while k + 1 < len(toks) and is_p(toks[k], '#'):
        k += 2
    toks = toks[k:]
    if toks and toks[-1][0] == 'G' and toks[-1][1] == '{':
        toks = toks[:-1]
    elif toks and is_p(toks[-1], ';'):
        toks = toks[:-1]
    return toks


def has_await(body):
    return len(body) >= 2 and is_p(body[-2], '.') and is_i(body[-1], 'await')


def contains_ident(toks, names):
    for t in toks:
        if t[0] == 'I' and isinstance(t[1], str) and t[1] in names:
            return True
        if t[0] == 'G' and contains_ident(t[2], names):
            return True
    return False


def trait_impl_expectations(I, eff, deps, fns, trait_item, impl_item, attr0, mode, O, sub_attrs, trait_ident_toks, impl_self=None):
    """C04 / C10 / C11 / C13 / C18 / C19 obligations on the generated trait and impl headers"""
    ex = I.ex
    n = len(fns)
    concrete = next((d for d in deps if d.kind == 'concrete'), None)
    # ---- trait methods and impl methods in source order (C08 / C01) --------------------------------------
    tm = [it for it in trait_item.items if it.kind == 'fn']
    im = [it for it in impl_item.items if it.kind == 'fn']
    O.add('C08', 'one-trait-method-per-function', len(tm) == n and len(im) == n, f'{len(tm)} trait methods / {len(im)} impl methods for {n} functions')
    O.add('C08', 'trait-contains-only-methods', len(trait_item.items) == len(tm) and len(impl_item.items) == len(im))
    # ---- C10: mock derivations ------------------------------------------------------------------------------
    ma = mock_attrs(trait_item)
    up, ug, uparams = ma['unimock']
    mp, mg, _ = ma['mockall']
    O.add('C10', 'unimock-derivation-iff-enabled-and-named', ziff(up, eff['unimock_derive']), f'emitted={up}')
    O.add('C10', 'mockall-derivation-iff-enabled', ziff(mp, eff['mockall']), f'emitted={mp}')
    if up:
        O.add('C10', 'unimock-test-gated-unless-exported', ziff(ug, znot(eff['export'])), f'gated={ug}')
    if mp:
        O.add('C10', 'mockall-test-gated-unless-exported', ziff(mg, znot(eff['export'])), f'gated={mg}')
    # C17: the macro variants are option shorthands (`entrait_export(args)` == `entrait(args, export)` unless args sets export, likewise
    # the unimock variants): the same facts, judged against the effective options (explicit value, else variant fallback, else false)
    O.add('C17', 'variant-fallbacks-behave-as-the-appended-option', zand(ziff(up, eff['unimock_derive']), ziff(mp, eff['mockall']),
                                                                       ziff(ug, znot(eff['export'])) if up else True, ziff(mg, znot(eff['export'])) if mp else True),
          f'unimock emitted={up} gated={ug}, mockall emitted={mp} gated={mg}')
    # no other mock-ish attribute sneaks in
    other = [a for a in trait_item.attrs if not is_known_trait_attr(a)]
    allowed_sub = [I.toks(a)[1][2] for a in sub_attrs if attr_kind(I, a) in ('async_trait', 'automock')]
    left = list(other)
    for want in allowed_sub:
        hit = next((x for x in left if toks_eq(x, want) is True), None)
        if hit is not None:
            left.remove(hit)
        else:
            O.add('C12' if 'async_trait' in show(want) else 'C18', 'sub-attribute-re-applied-to-trait', False, f'`{show(want)}` missing on the generated trait')
    O.add('C18', 'no-foreign-attribute-on-generated-trait', len(left) == 0, f'unexpected attributes {[show(a, 80) for a in left]}')
    # impl attrs: only async_trait copies
    allowed_impl = [I.toks(a)[1][2] for a in sub_attrs if attr_kind(I, a) == 'async_trait']
    left = list(impl_item.attrs)
    for want in allowed_impl:
        hit = next((x for x in left if toks_eq(x, want) is True), None)
        if hit is not None:
            left.remove(hit)
        else:
            O.add('C12', 'async_trait-re-applied-to-impl', False, f'`{show(want)}` missing on the generated impl')
    O.add('C18', 'no-foreign-attribute-on-generated-impl', len(left) == 0, f'unexpected attributes {[show(a, 80) for a in left]}')
    for m in tm + im:
        O.add('C18', 'generated-methods-carry-no-attributes', len(m.attrs) == 0, f'{[show(a, 60) for a in m.attrs]}')
    # ---- C05: concrete dependency ------------------------------------------------------------------------------
    nested = [a for a in trait_item.attrs if attr_path_is(a, ['entrait', 'entrait'])]
    O.add('C05', 'nested-entrait-attribute-iff-concrete-dependency', (len(nested) == 1) == (concrete is not None), f'{len(nested)} nested attrs, concrete={concrete is not None}')
    if nested:
        want = [('P', '::'), ('I', 'entrait'), ('P', '::'), ('I', 'entrait'),
                ('G', '(', [('I', 'unimock'), ('P', '='), ('I', 'false'), ('P', ','), ('I', 'mockall'), ('P', '='), ('I', 'false')])]
        O.add('C05', 'nested-entrait-attribute-disables-mocks', toks_eq(nested[0], want), f'`{show(nested[0])}`')
        # the leaf trait is expanded once more by that nested attribute: unless both mock kinds are pinned off there, the defaults of the
        # unimock feature would attach a derivation the outer invocation did not ask for (C10: explicit false always wins)
        O.add('C10', 'nested-entrait-attribute-pins-both-mock-kinds-off', toks_eq(nested[0], want), f'`{show(nested[0])}`')
    # ---- C04: impl header ----------------------------------------------------------------------------------------
    any_by_value = any((d.kind in ('generic', 'concrete') and not d.outer_ref) for d in deps) and mode in ('fn', 'mod')
    gens = impl_item.generics
    if mode in ('fn', 'mod'):
        if concrete is not None:
            O.add('C05', 'impl-is-for-the-concrete-type', toks_eq(impl_item.self_ty, concrete.concrete_toks),
                  f'`{show(impl_item.self_ty)}` vs `{show(concrete.concrete_toks)}`')
            first_is_t = False
        else:
            first_is_t = True
            want_bounds = ['Sync'] + (['Send'] if any_by_value else []) + ["'static"]
            got = gens[0] if gens else []
            O.add('C04', 'impl-type-parameter-bounds-are-Sync[+Send]+static', parse_t_bounds(got) == ('EntraitT', want_bounds),
                  f'`{show(got)}` expected EntraitT: {" + ".join(want_bounds)}')
            want_self_impl = eff['any_derive']
            is_impl_path = toks_eq(impl_item.self_ty, IMPL_PATH) is True
            is_t = toks_eq(impl_item.self_ty, [('I', 'EntraitT')]) is True
            O.add('C04', 'self-type-is-T-or-Impl<T>', is_impl_path or is_t, f'`{show(impl_item.self_ty)}`')
            O.add('C04', 'blanket-impl-iff-no-mock-derivation', ziff(is_impl_path, want_self_impl), f'self type `{show(impl_item.self_ty)}`')
        # where clause: Self: all declared deps bounds, then the non-deps predicates
        all_bounds = []
        for d in deps:
            if d.kind == 'generic':
                all_bounds += d.bounds
        preds = list(impl_item.where)
        if all_bounds and concrete is None:
            first = preds[0] if preds else []
            want = [('I', 'Self'), ('P', ':')]
            for k, b in enumerate(all_bounds):
                if k:
                    want.append(('P', '+'))
                want += b
            O.add('C04', 'impl-where-clause-requires-exactly-the-declared-bounds', toks_eq(first, want), f'`{show(first, 200)}` vs `{show(want, 200)}`')
            preds = preds[1:]
        else:
            O.add('C04', 'no-undeclared-Self-requirement', not any(p and is_i(p[0], 'Self') for p in preds), f'{[show(p, 80) for p in preds]}')
        # remaining predicates = the fns' non-deps where-predicates in order
        rest = []
        for f, d in zip(fns, deps):
            sig = I.f(f, 'fn_sig')
            gen_in = I.f(sig, 'generics')
            wc = I.f(gen_in, 'where_clause')
            if wc.variant == 'Some':
                for pred in I.items(ex.force_slot(wc.fields, 0), 'predicates'):
                    if pred.variant == 'Type' and d.kind == 'generic' and d.ident is not None:
                        p = ex.force_slot(pred.fields, 0)
                        bt = I.unbox(I.f(p, 'bounded_ty'))
                        if is_plain_ident_type(I, bt, d.ident):
                            continue
                    rest.append(I.toks(pred))
        # every non-dependency predicate stays in force: on the trait and the impl, or on the method in both
        tw = [strip_trailing_comma(p) for p in trait_item.where]
        for r_ in rest:
            on_headers = any(toks_eq(p, r_) is True for p in preds) and any(toks_eq(p, r_) is True for p in tw)
            on_methods = all(any(toks_eq(w, r_) is True for w in m.where) for m in tm + im) and bool(tm)
            O.add('C03', 'non-dependency-predicate-kept', on_headers or on_methods, f'`{show(r_, 80)}` neither on trait+impl nor on the methods')
        # ... and what is put on the trait / impl header must be well-scoped there: lifetime parameters stay on the methods, so a
        # predicate that names one cannot move to a header (E0261).  Precondition: the input itself is well-scoped.
        def lts(toks):
            out = set()
            for t in toks:
                if t[0] == 'LT' and isinstance(t[1], str):
                    out.add(t[1])
                elif t[0] == 'G':
                    out |= lts(t[2])
            return out
        legal_in = True
        for f in fns:
            gen_in = I.f(I.f(f, 'fn_sig'), 'generics')
            declared = {I.toks(gp)[0][1] for gp in I.items(gen_in, 'params') if gp.variant == 'Lifetime'}
            for gp in I.items(gen_in, 'params'):
                if gp.variant != 'Lifetime' and not (lts(I.toks(gp)) - {'static'}) <= declared:
                    legal_in = False
            wc = I.f(gen_in, 'where_clause')
            if wc.variant == 'Some':
                for pred in I.items(ex.force_slot(wc.fields, 0), 'predicates'):
                    if not (lts(I.toks(pred)) - {'static'}) <= declared:
                        legal_in = False
        if legal_in:
            for hname, hdr_generics, hdr_rest in (('trait', trait_item.generics, [x for p_ in trait_item.where for x in p_]),
                                                  ('impl', gens, [x for p_ in impl_item.where for x in p_])):
                decl = {g[0][1] for g in hdr_generics if g and g[0][0] == 'LT'}
                in_generics = lts([x for g in hdr_generics for x in g[1:]]) - {'static'} - decl
                in_where = lts(hdr_rest) - {'static'} - decl
                used = (lts(hdr_rest) | lts([x for g in hdr_generics for x in g[1:]])) - {'static'}
                from_bound = any((lts(I.toks(gp)) - {'static'}) for f in fns for gp in I.items(I.f(I.f(f, 'fn_sig'), 'generics'), 'params') if gp.variant == 'Type')
                O.add('C03', f'{hname}-header-names-only-lifetimes-it-declares', used <= decl,
                      f'the generated {hname} header uses {sorted(used - decl)} which it does not declare (they are parameters of the method)',
                      cls='lifetime-bound-of-a-type-parameter' if (in_generics or from_bound) else 'lifetime-in-a-lifted-where-predicate')
        for p in preds:
            O.add('C04', 'no-undeclared-predicate-on-impl', any(toks_eq(p, r_) is True for r_ in rest), f'`{show(p, 80)}`')
        for p in tw:
            O.add('C04', 'no-undeclared-predicate-on-trait', any(toks_eq(p, r_) is True for r_ in rest), f'`{show(p, 80)}`')
        # trait generics = non-deps type params + const params, in order
        tg = []
        for f, d in zip(fns, deps):
            gen_in = I.f(I.f(f, 'fn_sig'), 'generics')
            for gp in I.items(gen_in, 'params'):
                if gp.variant == 'Lifetime':
                    continue
                if gp.variant == 'Type' and d.kind == 'generic' and d.ident is not None and I.f(ex.force_slot(gp.fields, 0), 'ident').name == d.ident:
                    continue
                tg.append(I.toks(gp))
        O.add('C03', 'trait-generics-are-the-non-dependency-parameters', len(trait_item.generics) == len(tg) and
              zand(*[toks_eq(a, b) for a, b in zip(trait_item.generics, tg)]), f'{[show(g) for g in trait_item.generics]} vs {[show(g) for g in tg]}')
        if concrete is not None:
            # a concrete dependency written in any way (ident, qualified path, generic instantiation ..) leaves the fn's own type /
            # const parameters where they belong: on the leaf trait (the impl for C and the hand-written impls name them)
            O.add('C05', 'leaf-trait-carries-the-other-generic-parameters-of-the-fn', len(trait_item.generics) == len(tg) and
                  zand(*[toks_eq(a, b) for a, b in zip(trait_item.generics, tg)]), f'{[show(g) for g in trait_item.generics]} vs {[show(g) for g in tg]}')
        ig = gens[1:] if first_is_t else gens
        O.add('C03', 'impl-generics-repeat-the-trait-generics', len(ig) == len(tg) and zand(*[toks_eq(a, b) for a, b in zip(ig, tg)]),
              f'{[show(g) for g in ig]} vs {[show(g) for g in tg]}')
    # ---- C11 ------------------------------------------------------------------------------------------------------
    if up:
        c11_unimock_params(I, eff, deps, fns, tm, uparams, mode, O)
    # ---- C14 -------------------------------------------------------------------------------------------------------
    gen_toks = trait_item.tokens + impl_item.tokens
    O.add('C14', 'no-trait-object-or-box-in-static-delegation', not contains_macro_ident(gen_toks, ('dyn', 'Box')) or mode == 'impl_dyn',
          'a macro-originated `dyn` / `Box` token')
    return tm, im


IMPL_PATH = [('P', '::'), ('I', 'entrait'), ('P', '::'), ('I', 'Impl'), ('P', '<'), ('I', 'EntraitT'), ('P', '>')]


def strip_trailing_comma(p):
    return p[:-1] if p and is_p(p[-1], ',') else p


def contains_macro_ident(toks, names):
    for t in toks:
        if t[0] == 'I' and isinstance(t[1], str) and t[1] in names and len(t) > 2 and t[2] == 'macro':
            return True
        if t[0] == 'G' and contains_macro_ident(t[2], names):
            return True
    return False


def is_known_trait_attr(a):
    body = unwrap_cfg_attr_test(a) or a
    return attr_path_is(body, UNIMOCK_PATH) or attr_path_is(body, MOCKALL_PATH) or attr_path_is(a, ['entrait', 'entrait'])


def parse_t_bounds(toks):
    """`EntraitT : Sync + Send + 'static` (paths normalised: ::core::marker::Sync == Sync) -> (name, [bounds])"""
    if len(toks) < 2 or toks[0][0] != 'I' or not is_p(toks[1], ':'):
        return (None, [])
    bounds = []
    for part in rsview.split_top(toks[2:], '+'):
        if len(part) == 1 and part[0][0] == 'LT':
            bounds.append("'" + str(part[0][1]))
        else:
            last = part[-1] if part else None
            pre = [(t[0], t[1]) for t in part[:-1]]
            if last is not None and last[0] == 'I' and pre in ([], [('P', '::'), ('I', 'core'), ('P', '::'), ('I', 'marker'), ('P', '::')]):
                bounds.append(last[1])
            else:
                bounds.append(show(part))
    return (toks[0][1], bounds)


def c11_unimock_params(I, eff, deps, fns, tm, params, mode, O):
    parts = rsview.split_top(params, ',')
    want_prefix = [('I', 'prefix'), ('P', '='), ('P', '::'), ('I', 'entrait'), ('P', '::'), ('I', '__unimock')]
    O.add('C11', 'unimock-prefix', bool(parts) and toks_eq(parts[0], want_prefix), f'`{show(parts[0] if parts else [])}`')
    # without the prefix unimock's own expansion names `::unimock::..`, i.e. depends on what the invoking crate imports (C19)
    O.add('C19', 'unimock-derivation-is-pointed-at-::entrait::__unimock', bool(parts) and toks_eq(parts[0], want_prefix), f'`{show(parts[0] if parts else [])}`')
    rest = parts[1:]
    api = eff['mock_api_ident']
    if api is not None:
        want = [('I', 'api'), ('P', '=')]
        if mode == 'fn':
            want.append(('G', '[', [('I', api.name)]))
        else:
            want.append(('I', api.name))
        O.add('C11', 'mock-api-name-and-shape', bool(rest) and toks_eq(rest[0], want), f'`{show(rest[0] if rest else [])}` want `{show(want)}`')
        rest = rest[1:]
    if mode == 'trait':
        O.add('C11', 'entraited-traits-are-not-unmockable', not rest, f'extra `{[show(r) for r in rest]}`')
        return
    if not fns:
        O.add('C11', 'no-unmock_with-without-methods', not rest)
        return
    entries = []
    for f, d, m in zip(fns, deps, tm):
        fname = I.f(I.f(f, 'fn_sig'), 'ident').name
        # unimock's generated `impl Trait for Unimock` calls `fname(self, <the trait method's parameter names>)`: a parameter of the
        # TRAIT method spelled like the fn would be called instead of the fn
        for p in m.params:
            if p.receiver is None and p.name() is not None:
                O.add('C11', 'trait-method-parameter-does-not-shadow-the-unmocked-fn', znot(name_eq(p.name(), fname)),
                      f'trait method parameter `{p.name()}` of `{fname}`')
        if d.kind == 'generic':
            entries.append([('I', fname)])
        elif d.kind == 'concrete':
            entries.append([('I', '_')])
        else:
            names = [p.name() for p in m.params if p.receiver is None]
            a = []
            for k, nm in enumerate(names):
                if k:
                    a.append(('P', ','))
                a.append(('I', nm))
            entries.append([('I', fname), ('G', '(', a)])
    inner = []
    for k, e in enumerate(entries):
        if k:
            inner.append(('P', ','))
        inner += e
    want = [('I', 'unmock_with'), ('P', '='), ('G', '[', inner)]
    O.add('C11', 'unmock_with-one-entry-per-method-in-order', len(rest) == 1 and toks_eq(rest[0], want),
          f'`{[show(r, 160) for r in rest]}` want `{show(want, 160)}`')


# ---------------------------------------------------------------------------
# C19: every macro-originated identifier is rooted
# ---------------------------------------------------------------------------

KEYWORDS_OK = {'as', 'trait', 'impl', 'for', 'fn', 'where', 'self', 'Self', 'pub', 'super', 'use', 'await', 'async', 'dyn', 'type', 'mod', 'unsafe',
               'true', 'false', 'crate', 'in', 'move', 'const', 'mut', 'ref'}
RESERVED_OK = {'EntraitT', '__impl', 'Target', 'T'}
ATTR_KEYS_OK = {'cfg_attr', 'test', 'prefix', 'api', 'unmock_with', 'unimock', 'mockall', '_'}
ROOTS_OK = {'entrait', 'core', 'mockall'}


def c19_unrooted_idents(toks, extra_ok=()):
    """macro-originated identifiers that are neither keywords, reserved names, attribute keys, nor segments of a path that
    starts with `::entrait` / `::core` / `::mockall`, nor method names after `.`, nor associated items after `EntraitT::`"""
    bad = []
    n = len(toks)
    for i, t in enumerate(toks):
        if t[0] == 'G':
            bad += c19_unrooted_idents(t[2], extra_ok)
            continue
        if t[0] != 'I' or len(t) < 3 or t[2] != 'macro':
            continue
        name = t[1]
        if not isinstance(name, str):
            continue
        if name in KEYWORDS_OK or name in RESERVED_OK or name in ATTR_KEYS_OK or name in extra_ok:
            continue
        if name.startswith('arg') or name.startswith('_arg') or name.startswith('__arg'):
            continue
        # preceded by `.` : method call
        if i > 0 and is_p(toks[i - 1], '.'):
            continue
        # `Name = ..` directly after `<` or `,` : an associated-type binding (Future<Output = R>), resolved through the trait
        if i + 1 < n and is_p(toks[i + 1], '=') and i > 0 and (is_p(toks[i - 1], '<') or is_p(toks[i - 1], ',')):
            continue
        # walk back over `:: seg :: seg` to the path root
        def is_name(t):
            return t[0] == 'I' and not (isinstance(t[1], str) and t[1] in KEYWORDS_OK | {'as'})
        j = i
        rooted = False
        while j >= 2 and is_p(toks[j - 1], '::') and is_name(toks[j - 2]):
            j -= 2
        if j >= 1 and is_p(toks[j - 1], '::'):
            root = toks[j][1]
            if (j - 1 == 0 or not (is_name(toks[j - 2]) or is_p(toks[j - 2], '>'))) and root in ROOTS_OK:
                rooted = True
            elif j - 2 >= 0 and (is_name(toks[j - 2]) or is_p(toks[j - 2], '>')):
                rooted = True   # associated item after a type (EntraitT::Target, <..>::method)
        elif j < i:
            # path starting with an identifier: fine when that identifier is itself acceptable (e.g. EntraitT::Target)
            root = toks[j]
            if root[0] == 'I' and (root[1] in RESERVED_OK or (len(root) > 2 and root[2] == 'input')):
                rooted = True
        if not rooted:
            bad.append(name)
    return bad


# ---------------------------------------------------------------------------
# mode wrappers
# ---------------------------------------------------------------------------

def input_fn_tokens(I, f):
    toks = []
    for a in I.items(f, 'fn_attrs'):
        toks += I.toks(a)
    toks += I.toks(f.f('fn_vis'))
    toks += I.toks(f.f('fn_sig'))
    toks += I.P.flat(f.f('fn_body').toks)
    return toks


def spec_metamorphic(ex, O, out, out2):
    """C17, stated as it is written: the invocation and its canonical spelling (macro `entrait`, variant fallbacks spelled out,
    `no_deps = false` / `export = false` dropped) expand to the same tokens, or fail with the same message"""
    I = In(ex)
    if out.variant != out2.variant:
        O.add('C17', 'expansion-invariant-under-option-normalisation', False, f'as written: {out.variant}, canonical spelling: {out2.variant}')
        return
    if out.variant == 'Err':
        m1, m2 = out.fields[0].fields[1], out2.fields[0].fields[1]
        O.add('C17', 'expansion-invariant-under-option-normalisation', (m1 == m2) if isinstance(m1, str) and isinstance(m2, str) else name_eq(m1, m2), f'`{m1}` vs `{m2}`')
        return
    t1 = I.P.flat(out.fields[0].toks)
    t2 = I.P.flat(out2.fields[0].toks)
    O.add('C17', 'expansion-invariant-under-option-normalisation', toks_eq(t1, t2),
          f'as written `{show(t1, 400)}` vs canonical spelling `{show(t2, 400)}`')


def spec_fn_mode(ex, variant, attr0, item0, out_value):
    O = Obligations()
    r = spec_fn_like(ex, 'fn', variant, attr0, [item0], out_value, O)
    if r is None:
        return O
    I, eff, deps, toks = r['I'], r['eff'], r['deps'], r['toks']
    # ---- C02: the original item first, unaltered --------------------------------------------------------
    orig = input_fn_tokens(I, item0)
    O.add('C02', 'original-fn-emitted-first-unaltered', len(toks) >= len(orig) and toks_eq(toks[:len(orig)], orig),
          f'`{show(toks[:len(orig)], 300)}` vs `{show(orig, 300)}`')
    rest = toks[len(orig):]
    try:
        items = rsview.parse_items(rest)
    except Exception as e:
        O.add('C15', 'generated-items-parse', False, f'{type(e).__name__}: {e}')
        return O
    kinds = [it.kind for it in items]
    O.add('C02', 'generated-items-are-one-trait-and-one-impl', kinds == ['trait', 'impl'], f'{kinds}')
    if kinds != ['trait', 'impl']:
        return O
    trait_item, impl_item = items
    sub_attrs = I.items(item0, 'fn_attrs')
    tm, im = trait_impl_expectations(I, eff, deps, [item0], trait_item, impl_item, attr0, 'fn', O, sub_attrs, None)
    has_at = any(attr_kind(I, a) == 'async_trait' for a in sub_attrs)
    if len(tm) == 1 and len(im) == 1:
        fn_method_expectations(I, item0, deps[0], eff, O, tm[0], im[0], 'fn', '', 'fn', has_at)
    # ---- C13 ------------------------------------------------------------------------------------------------
    want_vis = I.toks(attr0.f('trait_visibility'))
    O.add('C13', 'trait-visibility-is-the-requested-one', toks_eq(trait_item.vis, want_vis), f'`{show(trait_item.vis)}` vs `{show(want_vis)}`')
    tid = I.f(attr0, 'trait_ident').name
    O.add('C13', 'trait-named-as-requested', name_eq(trait_item.name[1], tid))
    O.add('C01', 'impl-implements-the-generated-trait', bool(impl_item.trait_ref) and name_eq(impl_item.trait_ref[0][1], tid))
    # ---- C19 ---------------------------------------------------------------------------------------------------
    # (a parameter spelled like the fn is renamed `<fn>_`: a binding name, used as such in the delegation and the unmock list)
    fn_nm = I.f(I.f(item0, 'fn_sig'), 'ident').name
    bad = c19_unrooted_idents(rest, extra_ok=((fn_nm + '_',) if isinstance(fn_nm, str) else ()))
    O.add('C19', 'macro-originated-identifiers-are-rooted-or-reserved', not bad, f'bare identifiers {sorted(set(bad))}')
    return O


def discharge(pr, obligations, timeout_ms=10000):
    """-> (n_checked, n_solver_queries, failures[(prop, name, detail, model|None)], solver_time)"""
    import time
    fails = []
    nq = 0
    st = 0.0
    solver = None
    for prop, name, f, detail in obligations.items:
        if f is True:
            continue
        if f is False:
            fails.append((prop, name, detail, None))
            continue
        if isinstance(f, z3.ExprRef):
            if solver is None:
                solver = z3.Solver()
                solver.set('timeout', timeout_ms)
                for c in pr.pc:
                    solver.add(c)
            t = time.time()
            solver.push()
            solver.add(z3.Not(f))
            r = solver.check()
            nq += 1
            if r == z3.sat:
                fails.append((prop, name, detail, solver.model()))
            elif r == z3.unknown:
                fails.append((prop, name, 'SOLVER-UNKNOWN ' + detail, 'unknown'))
            solver.pop()
            st += time.time() - t
        else:
            fails.append((prop, name, f'non-boolean obligation {f!r}', None))
    return len(obligations.items), nq, fails, st


def classify_failure(prop, name, pr, model, idx=None):
    """input class of a counterexample, so that a known finding is keyed by the kind of input that fails"""
    O = pr.notes.get('obligations')
    if O is not None and idx is not None and O.cls.get(idx):
        return O.cls[idx]
    if O is not None and idx is None:
        for i, it in enumerate(O.items):
            if it[0] == prop and it[1] == name and O.cls.get(i):
                return O.cls[i]
    if model is None or model == 'unknown':
        return ''
    falses = []
    relevant = None
    if O is not None:
        for i_, it in enumerate(O.items):
            if (i_ == idx if idx is not None else (it[0] == prop and it[1] == name)) and isinstance(it[2], z3.ExprRef):
                relevant = set()

                def walk(e):
                    if z3.is_const(e) and e.decl().kind() == z3.Z3_OP_UNINTERPRETED:
                        relevant.add(e.decl().name())
                    for ch in e.children():
                        walk(ch)
                walk(it[2])
                break
    for d in model.decls():
        nm = d.name()
        if nm.startswith('opt:') and z3.is_false(model[d]) and (relevant is None or nm in relevant):
            falses.append(nm.split('.')[-1])
    if falses:
        return 'explicit-false:' + '+'.join(sorted(falses))
    return ''


# ---------------------------------------------------------------------------
# module mode
# ---------------------------------------------------------------------------

def unknown_item_tokens(I, u):
    toks = []
    for a in I.items(u, 'attrs'):
        toks += I.toks(a)
    toks += I.toks(u.f('vis'))
    toks += I.P.flat(u.f('tokens').toks)
    return toks


def spec_mod_mode(ex, variant, attr0, item0, out_value):
    O = Obligations()
    I0 = In(ex)
    items_in = I0.items(item0, 'items')
    fns = []
    for it in items_in:
        inner = ex.force_slot(it.fields, 0)
        if it.variant == 'PubFn':
            fns.append(ex.force_slot(inner.fields, 0))
    r = spec_fn_like(ex, 'mod', variant, attr0, fns, out_value, O)
    if r is None:
        return O
    I, eff, deps, toks = r['I'], r['eff'], r['deps'], r['toks']
    mod_attrs = I.items(item0, 'attrs')
    for a in mod_attrs:
        attr_kind(I, a)
    I.f(item0, 'vis')
    req_vis = I.f(attr0, 'trait_visibility')
    toks = I.P.flat(out_value.fields[0].toks)
    try:
        top = rsview.parse_items(toks)
    except Exception as e:
        O.add('C15', 'generated-items-parse', False, f'{type(e).__name__}: {e}')
        return O
    kinds = [t.kind for t in top]
    O.add('C02', 'module-followed-only-by-the-re-export', kinds == ['mod', 'use'], f'{kinds}')
    if kinds != ['mod', 'use']:
        return O
    m, use = top
    # ---- C02: the module as written, items in order, generated items appended -------------------------------------
    head = []
    for a in mod_attrs:
        head += I.toks(a)
    head += I.toks(item0.f('vis')) + [('I', 'mod'), ('I', I.f(item0, 'ident').name)]
    O.add('C02', 'module-header-unaltered', toks_eq(m.tokens[:-1], head), f'`{show(m.tokens[:-1], 200)}` vs `{show(head, 200)}`')
    body = m.body
    pos = 0
    ok = True
    for it in items_in:
        inner = it.fields[0]
        want = input_fn_tokens(I, inner.fields[0]) if it.variant == 'PubFn' else unknown_item_tokens(I, inner)
        got = body[pos:pos + len(want)]
        O.add('C02', 'module-item-re-emitted-unaltered-in-order', toks_eq(got, want), f'`{show(got, 200)}` vs `{show(want, 200)}`')
        pos += len(want)
    try:
        gen_items = rsview.parse_items(body[pos:])
    except Exception as e:
        O.add('C15', 'generated-items-parse', False, f'{type(e).__name__}: {e}')
        return O
    gk = [g.kind for g in gen_items]
    O.add('C02', 'generated-items-appended-at-the-end-of-the-module', gk == ['trait', 'impl'], f'{gk}')
    if gk != ['trait', 'impl']:
        return O
    trait_item, impl_item = gen_items
    tm, im = trait_impl_expectations(I, eff, deps, fns, trait_item, impl_item, attr0, 'mod', O, mod_attrs, None)
    has_at = any(attr_kind(I, a) == 'async_trait' for a in mod_attrs)
    if len(tm) == len(fns) and len(im) == len(fns):
        for k, (f, d) in enumerate(zip(fns, deps)):
            fn_method_expectations(I, f, d, eff, O, tm[k], im[k], 'mod', '', f'fn{k}', has_at)
            # cfg on a module fn must also guard what is generated for it (C18)
            for a in I.items(f, 'fn_attrs'):
                at = I.toks(a)
                if len(at) == 2 and at[1][0] == 'G' and at[1][2] and is_i(at[1][2][0], 'cfg'):
                    guarded = any(toks_eq(x, at[1][2]) is True for x in tm[k].attrs) and any(toks_eq(x, at[1][2]) is True for x in im[k].attrs)
                    O.add('C18', 'cfg-on-a-module-fn-also-guards-its-trait-method', guarded,
                          f'`#[{show(at[1][2])}]` on fn{k} but not on the generated trait method / delegating method', cls='cfg-on-module-fn')
    # ---- C13 / C08: visibility of the trait inside the module and of the re-export ---------------------------------------
    if req_vis.variant == 'Inherited':
        want_vis = [('I', 'pub'), ('G', '(', [('I', 'super')])]
    else:
        want_vis = I.toks(req_vis)
    O.add('C13', 'module-trait-visibility', toks_eq(trait_item.vis, want_vis), f'`{show(trait_item.vis)}` vs `{show(want_vis)}`')
    tid = I.f(attr0, 'trait_ident').name
    want_use = I.toks(req_vis) + [('I', 'use'), ('I', I.f(item0, 'ident').name), ('P', '::'), ('I', tid), ('P', ';')]
    O.add('C13', 're-export-with-the-requested-visibility', toks_eq(use.tokens, want_use), f'`{show(use.tokens)}` vs `{show(want_use)}`')
    O.add('C08', 'trait-named-as-requested', name_eq(trait_item.name[1], tid))
    renamed = tuple(nm + '_' for nm in (I.f(I.f(f_, 'fn_sig'), 'ident').name for f_ in fns) if isinstance(nm, str))
    bad = c19_unrooted_idents(body[pos:] + use.tokens, extra_ok=renamed)
    O.add('C19', 'macro-originated-identifiers-are-rooted-or-reserved', not bad, f'bare identifiers {sorted(set(bad))}')
    return O


# ---------------------------------------------------------------------------
# impl-block mode (dependency inversion, the implementation side)
# ---------------------------------------------------------------------------

def spec_impl_mode(ex, attr0, item0, out_value):
    O = Obligations()
    I0 = In(ex)
    kind = I0.f(attr0, 'impl_kind').variant
    items_in = I0.items(item0, 'items')
    fns = []
    for it in items_in:
        inner = ex.force_slot(it.fields, 0)
        if it.variant == 'Fn':
            fns.append(ex.force_slot(inner.fields, 0))
    r = spec_fn_like(ex, 'impl', 'entrait', attr0, fns, out_value, O)
    if r is None:
        return O
    I, eff, deps, toks = r['I'], r['eff'], r['deps'], r['toks']
    attrs_in = I.items(item0, 'attrs')
    for a in attrs_in:
        attr_kind(I, a)
    I.f(item0, 'unsafety')
    self_ty = I.toks(I.f(item0, 'self_ty'))
    toks = I.P.flat(out_value.fields[0].toks)
    try:
        top = rsview.parse_items(toks)
    except Exception as e:
        O.add('C15', 'generated-items-parse', False, f'{type(e).__name__}: {e}')
        return O
    kinds = [t.kind for t in top]
    O.add('C02', 'inherent-impl-then-trait-impl', kinds == ['impl', 'impl'], f'{kinds}')
    if kinds != ['impl', 'impl']:
        return O
    inh, timpl = top
    # ---- C02: items re-emitted inside an inherent impl ---------------------------------------------------------------
    O.add('C02', 'inherent-impl-of-the-self-type', inh.trait_ref is None and toks_eq(inh.self_ty, self_ty), f'`{show(inh.self_ty)}`')
    O.add('C02', 'unsafe-kept-on-the-inherent-impl', inh.unsafety == (I.f(item0, 'unsafety').variant == 'Some'))
    pos = 0
    for it in items_in:
        inner = it.fields[0]
        want = input_fn_tokens(I, inner.fields[0]) if it.variant == 'Fn' else unknown_item_tokens(I, inner)
        got = inh.body[pos:pos + len(want)]
        O.add('C02', 'impl-item-re-emitted-unaltered-in-order', toks_eq(got, want), f'`{show(got, 200)}` vs `{show(want, 200)}`')
        pos += len(want)
    O.add('C02', 'nothing-else-inside-the-inherent-impl', pos == len(inh.body), f'extra `{show(inh.body[pos:], 120)}`')
    non_at = [I.toks(a)[1][2] for a in attrs_in if attr_kind(I, a) != 'async_trait']
    O.add('C18', 'non-async_trait-attributes-stay-on-the-inherent-impl', len(inh.attrs) == len(non_at) and
          zand(*[toks_eq(a, b) for a, b in zip(inh.attrs, non_at)]), f'{[show(a, 60) for a in inh.attrs]}')
    # ---- C07: impl TraitImpl<EntraitT> for X where Impl<EntraitT>: bounds ---------------------------------------------------
    tp = I.toks(I.f(item0, 'trait_path'))
    # generic arguments: EntraitT, then the non-dependency type / const parameters of the fns (they are lifted to the trait)
    targs = [[('I', 'EntraitT')]]
    for f, d in zip(fns, deps):
        gen_in = I.f(I.f(f, 'fn_sig'), 'generics')
        for gp in I.items(gen_in, 'params'):
            if gp.variant == 'Lifetime':
                continue
            inner = ex.force_slot(gp.fields, 0)
            nm = I.f(inner, 'ident').name
            if gp.variant == 'Type' and d.kind == 'generic' and d.ident == nm:
                continue
            targs.append([('I', nm)])
    want_ref = tp + [('P', '<')]
    for k, a in enumerate(targs):
        if k:
            want_ref.append(('P', ','))
        want_ref += a
    want_ref.append(('P', '>'))
    O.add('C07', 'implements-TraitImpl<EntraitT>-for-the-self-type', timpl.trait_ref is not None and toks_eq(timpl.trait_ref, want_ref) and
          toks_eq(timpl.self_ty, self_ty), f'`{show(timpl.trait_ref or [])}` for `{show(timpl.self_ty)}`')
    want_bounds = ['Sync', "'static"]   # the dependency of an implementation fn is always `&Impl<T>`
    g0 = timpl.generics[0] if timpl.generics else []
    O.add('C04', 'impl-type-parameter-bounds-are-Sync[+Send]+static', parse_t_bounds(g0) == ('EntraitT', want_bounds), f'`{show(g0)}`')
    all_bounds = []
    for d in deps:
        if d.kind == 'generic':
            all_bounds += d.bounds
    preds = list(timpl.where)
    if all_bounds:
        want = list(IMPL_PATH) + [('P', ':')]
        for k, b in enumerate(all_bounds):
            if k:
                want.append(('P', '+'))
            want += b
        O.add('C04', 'impl-where-clause-requires-exactly-the-declared-bounds', bool(preds) and toks_eq(preds[0], want),
              f'`{show(preds[0] if preds else [], 200)}` vs `{show(want, 200)}`')
    else:
        O.add('C04', 'no-undeclared-requirement-on-Impl<T>', not any(toks_eq(p[:len(IMPL_PATH)], IMPL_PATH) is True for p in preds), f'{[show(p, 80) for p in preds]}')
    im = [it for it in timpl.items if it.kind == 'fn']
    O.add('C08', 'one-method-per-function', len(im) == len(fns) and len(timpl.items) == len(im), f'{len(im)} methods for {len(fns)} fns')
    has_at = any(attr_kind(I, a) == 'async_trait' for a in attrs_in)
    at_attrs = [I.toks(a)[1][2] for a in attrs_in if attr_kind(I, a) == 'async_trait']
    O.add('C12', 'async_trait-re-applied-to-the-trait-impl', len(timpl.attrs) == len(at_attrs) and zand(*[toks_eq(a, b) for a, b in zip(timpl.attrs, at_attrs)]),
          f'{[show(a, 60) for a in timpl.attrs]}')
    O.add('C18', 'generated-trait-impl-carries-only-async_trait-copies', all(any(toks_eq(x, a) is True for a in at_attrs) for x in timpl.attrs) and
          len(timpl.attrs) <= len(at_attrs), f'{[show(a, 60) for a in timpl.attrs]} (attributes of the impl block stay on the inherent impl)')
    mode = 'impl_static' if kind == 'Static' else 'impl_dyn'
    if len(im) == len(fns):
        for k, (f, d) in enumerate(zip(fns, deps)):
            impl_method_expectations(I, f, d, O, im[k], mode, f'fn{k}', has_at)
            for a in I.items(f, 'fn_attrs'):
                at = I.toks(a)
                if len(at) == 2 and at[1][0] == 'G' and at[1][2] and is_i(at[1][2][0], 'cfg'):
                    guarded = any(toks_eq(x, at[1][2]) is True for x in im[k].attrs)
                    O.add('C18', 'cfg-on-an-impl-block-fn-also-guards-its-delegating-method', guarded,
                          f'`#[{show(at[1][2])}]` on fn{k} but not on the generated method', cls='cfg-on-impl-block-fn')
    bad = c19_unrooted_idents(timpl.tokens)
    O.add('C19', 'macro-originated-identifiers-are-rooted-or-reserved', not bad, f'bare identifiers {sorted(set(bad))}')
    dyn_ok = mode == 'impl_dyn'
    O.add('C14', 'no-trait-object-or-box-in-static-delegation', dyn_ok or not contains_macro_ident(timpl.tokens, ('dyn', 'Box')))
    return O


def impl_method_expectations(I, f, d, O, mi, mode, tag, has_async_trait):
    """`fn m(__impl: &Impl<T>, args) { Self::m(__impl, args) }` (static) / `fn m(&self, __impl: &Impl<T>, args) {..}` (dynamic)"""
    ex = I.ex
    sig = I.f(f, 'fn_sig')
    fname = I.f(sig, 'ident').name
    is_async = I.f(sig, 'asyncness').variant == 'Some'
    inputs = I.items(sig, 'inputs')
    O.add('C07', f'{tag}:method-named-like-fn', name_eq(mi.name[1], fname))
    params = [p for p in mi.params if p.receiver is None]
    recv = [p for p in mi.params if p.receiver is not None]
    names = [p.name() for p in params]
    if any(n is None for n in names):
        bad_modes = sorted({str(t[1]) for p in params if p.name() is None for t in p.pat if t[0] in ('I', 'P') and isinstance(t[1], str) and t[1] in ('mut', 'ref', '@')})
        O.add('C16', f'{tag}:every-parameter-is-a-plain-identifier', False, f'{[show(p.pat) for p in params]}',
              cls=('binding-mode-kept:' + '+'.join(bad_modes)) if bad_modes else '')
        # the delegating method forwards by name: a parameter that is still a pattern cannot reach the implementation block as written
        O.add('C07', f'{tag}:every-argument-can-be-forwarded-by-name', False, f'patterns {[show(p.pat) for p in params]}')
        return
    n_user = len(inputs) - (0 if d.kind == 'nodeps' else 1)
    impl_ty = [('P', '&')] + list(IMPL_PATH)
    if mode == 'impl_static':
        O.add('C07', f'{tag}:static-shape-(__impl: &Impl<T>, args)', len(recv) == 0 and len(params) == n_user + 1 and names[0] == '__impl'
              and toks_eq(params[0].ty, impl_ty) is True, f'recv={len(recv)} params `{[show(p.pat) + ":" + show(p.ty) for p in params]}`')
    else:
        O.add('C07', f'{tag}:dynamic-shape-(&self, __impl: &Impl<T>, args)', len(recv) == 1 and recv[0].receiver['ref'] and mi.params[0].receiver is not None
              and len(params) == n_user + 1 and names[0] == '__impl' and toks_eq(params[0].ty, impl_ty) is True,
              f'recv={len(recv)} params `{[show(p.pat) + ":" + show(p.ty) for p in params]}`')
    if len(params) != n_user + 1:
        return
    # body: Self::f(__impl, args)[.await]; the dependency is forwarded first (dropped only for a fn without deps)
    fwd = names if d.kind != 'nodeps' else names[1:]
    args = []
    for k, n in enumerate(fwd):
        if k:
            args.append(('P', ','))
        args.append(('I', n))
    exp = [('I', 'Self'), ('P', '::'), ('I', fname), ('G', '(', args)]
    if is_async:
        exp += [('P', '.'), ('I', 'await')]
    body = strip_trailing_commas(list(mi.body or []))
    O.add('C07', f'{tag}:delegating-body-is-Self::fn(__impl, args in order)[.await]', toks_eq(body, exp), f'`{show(body, 200)}` expected `{show(exp, 200)}`')
    O.add('C12', f'{tag}:await-iff-async', has_await(body) == is_async)
    user_params = inputs if d.kind == 'nodeps' else inputs[1:]
    for k, up in enumerate(user_params):
        if up.variant != 'Typed':
            continue
        pt = ex.force_slot(up.fields, 0)
        O.add('C03', f'{tag}:param{k}:type-unchanged', toks_eq(params[k + 1].ty, I.toks(I.f(pt, 'ty'))))
        O.add('C18', f'{tag}:param{k}:attributes-stripped', len(params[k + 1].attrs) == 0)
    q_in = [q for q in qualifiers_of(I, sig) if q != 'const']
    O.add('C03', f'{tag}:qualifiers-kept', [q for q in mi.quals if q != 'const'] == q_in, f'input {q_in} generated {mi.quals}')
    out_node = I.f(sig, 'output')
    ret_in = I.toks(out_node.fields[1]) if out_node.variant == 'Type' else None
    O.add('C03', f'{tag}:return-type-unchanged', (mi.ret is None and ret_in is None) or (mi.ret is not None and ret_in is not None and toks_eq(mi.ret, ret_in)))


# ---------------------------------------------------------------------------
# trait mode (C06 C07 C09 + the trait halves of C10 C12 C13 C15 C18 C19)
# ---------------------------------------------------------------------------

ERR_NO_IMPL_TRAIT = 'Cannot use a custom delegating trait without a custom trait to delegate to'


def touch_sig(I, sig):
    ex = I.ex
    for n in ('constness', 'asyncness', 'unsafety', 'abi', 'ident', 'output'):
        I.f(sig, n)
    gen = I.f(sig, 'generics')
    for gp in I.items(gen, 'params'):
        inner = ex.force_slot(gp.fields, 0)
        if gp.variant == 'Type':
            I.f(inner, 'ident')
            I.items(inner, 'bounds')
    wc = I.f(gen, 'where_clause')
    if wc.variant == 'Some':
        for pred in I.items(ex.force_slot(wc.fields, 0), 'predicates'):
            ex.force_slot(pred.fields, 0)
    for fa in I.items(sig, 'inputs'):
        inner = ex.force_slot(fa.fields, 0)
        if fa.variant == 'Typed':
            I.items(inner, 'attrs')
            pat = I.unbox(I.f(inner, 'pat'))
            ex.force_slot(pat.fields, 0)
            I.f(inner, 'ty')
        else:
            I.f(inner, 'reference')


def generic_args_of(I, generics):
    args = []
    for gp in I.items(generics, 'params'):
        inner = I.ex.force_slot(gp.fields, 0)
        if gp.variant == 'Lifetime':
            args.append(I.toks(I.f(inner, 'lifetime')))
        else:
            args.append([('I', I.f(inner, 'ident').name)])
    return args


def angle(args):
    if not args:
        return []
    out = [('P', '<')]
    for k, a in enumerate(args):
        if k:
            out.append(('P', ','))
        out += a
    out.append(('P', '>'))
    return out


def spec_trait_mode(ex, variant, attr0, item0, out_value):
    O = Obligations()
    I = In(ex)
    eff = effective_options(I, attr0, variant, 'trait')
    impl_trait = I.f(attr0, 'impl_trait')
    dk = I.f(attr0, 'delegation_kind')
    kind = 'none'
    delegate_ident = None
    if dk.variant == 'Some':
        d = dk.fields[0].fields[0]
        if d.variant == 'BySelf':
            kind = 'self'
        elif d.variant == 'ByRef':
            kind = 'ref' if d.fields[0].variant == 'AsRef' else 'borrow'
        else:
            kind = 'trait'
            delegate_ident = d.fields[0].name
    has_it = impl_trait.variant == 'Some'
    # rejections decided by the attribute alone: nothing of the item needs to be looked at
    if out_value.variant == 'Err' and ((not has_it and kind == 'trait')):
        msg = out_value.fields[0].fields[1]
        O.add('C15', 'error-only-for-documented-misuse', isinstance(msg, str) and msg.startswith(ERR_NO_IMPL_TRAIT), f'macro reported `{msg}`')
        sp = out_value.fields[0].fields[0]
        O.add('C15', 'error-span-at-input-token', isinstance(sp, Span) and sp.origin != 'call_site', f'span {sp}')
        return O
    items_in = I.items(item0, 'items')
    if out_value.variant == 'Err':
        msg = out_value.fields[0].fields[1]
        exps = []
        if any(it.variant not in ('Fn', 'Type') for it in items_in):
            exps.append('Entrait does not support this kind of trait item.')
        if has_it and kind in ('none', 'self'):
            exps.append('Missing delegate_by')
        # a parameter that is not a plain identifier cannot be forwarded: a diagnostic at the pattern is an acceptable
        # outcome (C15: "either succeeds or reports an error"), a panic is not
        for it in items_in:
            if it.variant != 'Fn':
                continue
            sig = I.f(ex.force_slot(it.fields, 0), 'sig')
            for fa in I.items(sig, 'inputs'):
                if fa.variant == 'Typed' and I.unbox(I.f(ex.force_slot(fa.fields, 0), 'pat')).variant != 'Ident':
                    exps.append('')
                    break
        # when several misuses coincide any of their diagnostics may come first
        O.add('C15', 'error-only-for-documented-misuse', isinstance(msg, str) and any(msg.startswith(e) for e in exps),
              f'macro reported `{msg}`; applicable diagnostics {exps if exps else "none (a successful expansion was expected)"}')
        if not msg.startswith('Missing delegate_by'):
            sp = out_value.fields[0].fields[0]
            O.add('C15', 'error-span-at-input-token', isinstance(sp, Span) and sp.origin != 'call_site', f'span {sp}')
        return O
    methods = []
    other_items = []
    for it in items_in:
        inner = ex.force_slot(it.fields, 0)
        if it.variant == 'Fn':
            methods.append(inner)
            touch_sig(I, I.f(inner, 'sig'))
            for a in I.items(inner, 'attrs'):
                attr_kind(I, a)
            I.f(inner, 'default')
        else:
            other_items.append(it)
    trait_attrs = I.items(item0, 'attrs')
    for a in trait_attrs:
        attr_kind(I, a)
    for n in ('vis', 'unsafety', 'ident', 'colon_token'):
        I.f(item0, n)
    I.items(item0, 'supertraits')
    gen = I.f(item0, 'generics')
    for gp in I.items(gen, 'params'):
        inner = ex.force_slot(gp.fields, 0)
        if gp.variant == 'Type':
            I.f(inner, 'ident')
    wc = I.f(gen, 'where_clause')
    if wc.variant == 'Some':
        I.items(ex.force_slot(wc.fields, 0), 'predicates')
    if has_it:
        I.f(impl_trait.fields[0], 'ty') if False else None
        ex.force_slot(impl_trait.fields[0].fields, 0)
    # ---- documented rejections -------------------------------------------------------------------------------------------
    expect_err = None
    if not has_it and kind == 'trait':
        expect_err = ERR_NO_IMPL_TRAIT
    elif any(it.variant not in ('Fn', 'Type') for it in items_in):
        expect_err = 'Entrait does not support this kind of trait item.'
    elif has_it and kind in ('none', 'self'):
        expect_err = 'Missing delegate_by'
    if out_value.variant == 'Err':
        msg = out_value.fields[0].fields[1]
        O.add('C15', 'error-only-for-documented-misuse', expect_err is not None and isinstance(msg, str) and msg.startswith(expect_err),
              f'macro reported `{msg}`; expected {"`" + expect_err + "`" if expect_err else "a successful expansion"}')
        sp = out_value.fields[0].fields[0]
        if expect_err != 'Missing delegate_by':
            O.add('C15', 'error-span-at-input-token', isinstance(sp, Span) and sp.origin != 'call_site', f'span {sp}')
        return O
    O.add('C15', 'misuse-rejected', expect_err is None, f'expected rejection `{expect_err}` but the macro expanded')
    if expect_err is not None:
        return O
    toks = I.P.flat(out_value.fields[0].toks)
    try:
        top = rsview.parse_items(toks)
    except Exception as e:
        O.add('C15', 'generated-items-parse', False, f'{type(e).__name__}: {e}')
        return O
    kinds = [t.kind for t in top]
    want_kinds = ['trait'] + (['trait'] if has_it else []) + (['trait'] if (has_it and kind == 'trait') else []) + ['impl']
    O.add('C09', 'expansion-is-the-trait[, delegation traits] and the Impl<T> impl', kinds == want_kinds, f'{kinds} expected {want_kinds}')
    if kinds != want_kinds:
        return O
    tr = top[0]
    impl_item = top[-1]
    tname = I.f(item0, 'ident').name
    contains_async = any(I.f(I.f(m, 'sig'), 'asyncness').variant == 'Some' for m in methods)
    has_at = any(attr_kind(I, a) == 'async_trait' for a in trait_attrs)
    # ---- C09: the user's trait --------------------------------------------------------------------------------------------------
    O.add('C09', 'trait-name-kept', name_eq(tr.name[1], tname))
    O.add('C09', 'trait-visibility-kept', toks_eq(tr.vis, I.toks(item0.f('vis'))), f'`{show(tr.vis)}`')
    O.add('C09', 'unsafe-kept', tr.unsafety == (I.f(item0, 'unsafety').variant == 'Some'), f'unsafe={tr.unsafety}', cls='unsafe-trait')
    gp_in = [I.toks(g) for g in I.items(gen, 'params')]
    O.add('C09', 'trait-generics-kept', len(tr.generics) == len(gp_in) and zand(*[toks_eq(a, b) for a, b in zip(tr.generics, gp_in)]),
          f'{[show(g) for g in tr.generics]} vs {[show(g) for g in gp_in]}')
    sup_in = [I.toks(b) for b in I.items(item0, 'supertraits')]
    O.add('C09', 'supertraits-kept', len(tr.supertraits) == len(sup_in) and zand(*[toks_eq(a, b) for a, b in zip(tr.supertraits, sup_in)]),
          f'{[show(g) for g in tr.supertraits]} vs {[show(g) for g in sup_in]}')
    w_in = []
    if wc.variant == 'Some':
        w_in = [I.toks(p) for p in I.items(ex.force_slot(wc.fields, 0), 'predicates')]
    O.add('C09', 'where-clause-kept', len(tr.where) == len(w_in) and zand(*[toks_eq(strip_trailing_comma(a), b) for a, b in zip(tr.where, w_in)]),
          f'{[show(g) for g in tr.where]} vs {[show(g) for g in w_in]}')
    # attributes: every input attribute, additions limited to the mock derivations the macro owns
    left = [a for a in tr.attrs if not is_known_trait_attr(a)]
    for a in trait_attrs:
        want = I.toks(a)[1][2]
        hit = next((x for x in left if toks_eq(x, want) is True), None)
        cls = 'trait-attribute-dropped:' + ('async_trait/automock' if attr_kind(I, a) != 'other' else 'other')
        if hit is not None:
            left.remove(hit)
        O.add('C09', 'trait-attribute-kept', hit is not None, f'`#[{show(want, 60)}]` is missing on the resulting trait', cls=cls)
    O.add('C09', 'no-foreign-attribute-added-to-the-trait', not left, f'{[show(a, 60) for a in left]}')
    # items in order
    out_fns = [it for it in tr.items if it.kind == 'fn']
    n_types_in = sum(1 for it in items_in if it.variant == 'Type')
    n_types_out = sum(1 for it in tr.items if it.kind == 'type')
    O.add('C09', 'associated-types-kept', n_types_in == n_types_out, f'{n_types_in} associated type(s) in the input, {n_types_out} in the result', cls='associated-type-dropped')
    O.add('C09', 'every-method-kept-in-order', len(out_fns) == len(methods), f'{len(out_fns)} vs {len(methods)}')
    im = [it for it in impl_item.items if it.kind == 'fn']
    O.add('C06', 'one-delegating-method-per-trait-method', len(im) == len(methods) and len(impl_item.items) == len(im), f'{len(im)} vs {len(methods)}')
    if len(out_fns) != len(methods) or len(im) != len(methods):
        return O
    for k, m in enumerate(methods):
        sig = I.f(m, 'sig')
        mt = out_fns[k]
        mi = im[k]
        tag = f'm{k}'
        is_async = I.f(sig, 'asyncness').variant == 'Some'
        sig_in = I.toks(sig)
        rewritten = is_async and not has_at
        if not rewritten:
            O.add('C09', f'{tag}:signature-kept', toks_eq(sig_tokens(mt), sig_in), f'`{show(sig_tokens(mt), 200)}` vs `{show(sig_in, 200)}`')
        else:
            out_node = I.f(sig, 'output')
            ret_in = I.toks(out_node.fields[1]) if out_node.variant == 'Type' else None
            want = [('I', 'impl'), ('P', '::'), ('I', 'core'), ('P', '::'), ('I', 'future'), ('P', '::'), ('I', 'Future'), ('P', '<'),
                    ('I', 'Output'), ('P', '=')] + (ret_in if ret_in is not None else [('G', '(', [])]) + [('P', '>')]
            send = [('P', '+'), ('P', '::'), ('I', 'core'), ('P', '::'), ('I', 'marker'), ('P', '::'), ('I', 'Send')]
            got = mt.ret or []
            has_send = len(got) >= len(send) and toks_eq(got[-len(send):], send) is True
            base = got[:-len(send)] if has_send else got
            O.add('C12', f'{tag}:future-output-is-the-declared-return-type', toks_eq(base, want), f'`{show(got, 200)}`')
            O.add('C12', f'{tag}:send-bound-iff-not-?Send', has_send == eff['future_send'], f'Send={has_send}')
            O.add('C09', f'{tag}:async-rewrite-is-the-documented-one', zand(toks_eq(base, want), has_send == eff['future_send']),
                  f'`{show(got, 200)}` (documented: `impl ::core::future::Future<Output = R>` + Send unless ?Send)')
            O.add('C12', f'{tag}:trait-method-not-async', 'async' not in mt.quals)
            O.add('C14', f'{tag}:no-boxing', not contains_ident(got, ('Box', 'dyn', 'Pin')))
            # everything else of the signature is kept
            in_item = rsview.parse_items(sig_in + [('P', ';')])[0]
            same = zand(len(mt.params) == len(in_item.params), *[zand(toks_eq(a.pat, b.pat), toks_eq(a.ty, b.ty), a.receiver == b.receiver)
                                                                   for a, b in zip(mt.params, in_item.params)],
                        len(mt.generics) == len(in_item.generics), *[toks_eq(a, b) for a, b in zip(mt.generics, in_item.generics)],
                        len(mt.where) == len(in_item.where), *[toks_eq(a, b) for a, b in zip(mt.where, in_item.where)],
                        name_eq(mt.name[1], in_item.name[1]))
            O.add('C09', f'{tag}:signature-kept-up-to-the-async-rewrite', same, f'`{show(sig_tokens(mt), 200)}` vs `{show(sig_in, 200)}`')
        # method attributes on the trait method and mirrored on the delegating method (C09 / C18)
        ain = [I.toks(a)[1][2] for a in I.items(m, 'attrs')]
        O.add('C09', f'{tag}:method-attributes-kept', len(mt.attrs) == len(ain) and zand(*[toks_eq(a, b) for a, b in zip(mt.attrs, ain)]),
              f'{[show(a, 50) for a in mt.attrs]} vs {[show(a, 50) for a in ain]}')
        O.add('C18', f'{tag}:method-attributes-mirrored-on-the-delegating-method', len(mi.attrs) == len(ain) and zand(*[toks_eq(a, b) for a, b in zip(mi.attrs, ain)]),
              f'{[show(a, 50) for a in mi.attrs]} vs {[show(a, 50) for a in ain]}')
        dflt = I.f(m, 'default')
        O.add('C09', f'{tag}:default-body-kept', (dflt.variant == 'Some') == (mt.body is not None), f'provided={dflt.variant == "Some"} emitted-body={mt.body is not None}',
              cls='default-body-dropped')
        # ---- C06 / C07: the delegating method -----------------------------------------------------------------------
        O.add('C06', f'{tag}:delegating-signature-is-the-trait-method-signature', toks_eq(sig_tokens(mi), sig_in), f'`{show(sig_tokens(mi), 200)}`')
        params = [p for p in mi.params if p.receiver is None]
        names = [p.name() for p in params]
        if any(n is None for n in names):
            O.add('C15', f'{tag}:non-identifier-pattern-handled', False, 'non-identifier parameter pattern reached code generation')
            continue
        args = []
        for q, n in enumerate(names):
            if q:
                args.append(('P', ','))
            args.append(('I', n))
        T = [('I', 'EntraitT')]
        if has_it and kind == 'trait':
            call = [('P', '<'), ('I', 'EntraitT'), ('P', '::'), ('I', 'Target'), ('I', 'as'), ('I', impl_trait.fields[0].fields[1].name), ('P', '<'),
                    ('I', 'EntraitT'), ('P', '>'), ('P', '>'), ('P', '::'), ('I', I.f(sig, 'ident').name),
                    ('G', '(', [('I', 'self')] + ([('P', ',')] + args if args else []))]
        elif has_it and kind in ('ref', 'borrow'):
            conv = ['convert', 'AsRef', 'as_ref'] if kind == 'ref' else ['borrow', 'Borrow', 'borrow']
            dyn = [('I', 'dyn'), ('I', impl_trait.fields[0].fields[1].name), ('P', '<'), ('I', 'EntraitT'), ('P', '>')] + \
                  ([('P', '+'), ('I', 'Sync')] if contains_async else [])
            call = [('P', '<'), ('I', 'EntraitT'), ('I', 'as'), ('P', '::'), ('I', 'core'), ('P', '::'), ('I', conv[0]), ('P', '::'), ('I', conv[1]), ('P', '<')] + dyn + \
                   [('P', '>'), ('P', '>'), ('P', '::'), ('I', conv[2]), ('G', '(', [('P', '&'), ('P', '*'), ('I', 'self')]), ('P', '.'), ('I', I.f(sig, 'ident').name),
                    ('G', '(', [('I', 'self')] + ([('P', ',')] + args if args else []))]
        elif kind == 'ref':
            call = [('I', 'self'), ('P', '.'), ('I', 'as_ref'), ('G', '(', []), ('P', '.'), ('I', 'as_ref'), ('G', '(', []), ('P', '.'), ('I', I.f(sig, 'ident').name), ('G', '(', args)]
        elif kind == 'borrow':
            call = [('I', 'self'), ('P', '.'), ('I', 'as_ref'), ('G', '(', []), ('P', '.'), ('I', 'borrow'), ('G', '(', []), ('P', '.'), ('I', I.f(sig, 'ident').name), ('G', '(', args)]
        else:
            call = [('I', 'self'), ('P', '.'), ('I', 'as_ref'), ('G', '(', []), ('P', '.'), ('I', I.f(sig, 'ident').name), ('G', '(', args)]
        if is_async:
            call += [('P', '.'), ('I', 'await')]
        body = strip_trailing_commas(normalize_sync_path(list(mi.body or [])))
        prop = 'C07' if has_it else 'C06'
        O.add(prop, f'{tag}:forwarding-call-shape', toks_eq(body, strip_trailing_commas(call)), f'`{show(body, 260)}` expected `{show(call, 260)}`')
        if kind not in ('ref', 'borrow'):
            O.add('C14', f'{tag}:no-boxing-in-a-statically-dispatched-delegating-method', not contains_ident(body, ('Box', 'dyn', 'Pin', 'pin')),
                  f'`{show(body, 200)}`')
        if not has_it and kind in ('none', 'self'):
            # the leaf trait of a concrete-dependency function goes through exactly this expansion (nested `#[entrait]` on the trait)
            O.add('C05', f'{tag}:leaf-trait-forwards-to-T', toks_eq(body, strip_trailing_commas(call)), f'`{show(body, 260)}` expected `{show(call, 260)}`')
        O.add('C12', f'{tag}:await-iff-async', has_await(body) == is_async)
    # ---- the Impl<T> impl header ------------------------------------------------------------------------------------------------
    g0 = impl_item.generics[0] if impl_item.generics else []
    O.add('C06', 'impl-type-parameter-bounds-are-Sync+static', parse_t_bounds(g0) == ('EntraitT', ['Sync', "'static"]), f'`{show(g0)}`')
    O.add('C06', 'impl-generics-repeat-the-trait-generics', len(impl_item.generics) == 1 + len(gp_in) and
          zand(*[toks_eq(a, b) for a, b in zip(impl_item.generics[1:], gp_in)]), f'{[show(g) for g in impl_item.generics]}')
    O.add('C06', 'implemented-for-Impl<EntraitT>', toks_eq(impl_item.self_ty, IMPL_PATH), f'`{show(impl_item.self_ty)}`')
    targs = generic_args_of(I, gen)
    O.add('C06', 'implements-the-trait-with-its-generic-arguments', impl_item.trait_ref is not None and toks_eq(impl_item.trait_ref, [('I', tname)] + angle(targs)),
          f'`{show(impl_item.trait_ref or [])}`')
    preds = list(impl_item.where)
    first = normalize_sync_path(preds[0]) if preds else []
    S = lambda n: [('P', '+'), ('I', n)]
    ST = [('P', '+'), ('LT', 'static')]
    if has_it and kind == 'trait':
        want = T_colon() + [('I', delegate_ident), ('P', '<'), ('I', 'EntraitT'), ('P', '>')] + S('Sync') + ST
    elif has_it:
        core = ['convert', 'AsRef'] if kind == 'ref' else ['borrow', 'Borrow']
        want = T_colon() + [('P', '::'), ('I', 'core'), ('P', '::'), ('I', core[0]), ('P', '::'), ('I', core[1]), ('P', '<'), ('I', 'dyn'),
                            ('I', impl_trait.fields[0].fields[1].name), ('P', '<'), ('I', 'EntraitT'), ('P', '>')] + (S('Sync') if contains_async else []) + [('P', '>')] + \
            ((S('Send') + S('Sync')) if contains_async else []) + ST
    elif kind in ('ref', 'borrow'):
        core = ['convert', 'AsRef'] if kind == 'ref' else ['borrow', 'Borrow']
        want = T_colon() + [('P', '::'), ('I', 'core'), ('P', '::'), ('I', core[0]), ('P', '::'), ('I', core[1]), ('P', '<'), ('I', 'dyn'), ('I', tname)] + angle(targs) + \
            [('P', '>')] + ((S('Send') + S('Sync')) if contains_async else []) + ST
    else:
        want = T_colon() + [('I', tname)] + angle(targs) + S('Sync') + (ST if contains_async else [])
    prop = 'C07' if has_it else 'C06'
    O.add(prop, 'provider-bound-on-T-per-selector', toks_eq(first, want), f'`{show(first, 260)}` expected `{show(want, 260)}`')
    if not has_it and kind in ('none', 'self'):
        O.add('C05', 'leaf-trait-is-implemented-for-Impl<T>-where-T-implements-it', zand(toks_eq(first, want), toks_eq(impl_item.self_ty, IMPL_PATH)),
              f'`{show(first, 200)}` / `{show(impl_item.self_ty)}`')
    rest = preds[1:]
    O.add('C06', 'remaining-predicates-are-the-trait-where-clause', len(rest) == len(w_in) and zand(*[toks_eq(a, b) for a, b in zip(rest, w_in)]),
          f'{[show(p, 80) for p in rest]} vs {[show(p, 80) for p in w_in]}')
    at_attrs = [I.toks(a)[1][2] for a in trait_attrs if attr_kind(I, a) == 'async_trait']
    O.add('C12', 'async_trait-re-applied-to-the-Impl<T>-impl', len(impl_item.attrs) == len(at_attrs) and zand(*[toks_eq(a, b) for a, b in zip(impl_item.attrs, at_attrs)]),
          f'{[show(a, 60) for a in impl_item.attrs]}')
    # ---- C10: mock derivations on the user's trait ---------------------------------------------------------------------------------
    ma = mock_attrs(tr)
    up, ug, uparams = ma['unimock']
    mp, mg, _ = ma['mockall']
    O.add('C10', 'unimock-derivation-iff-enabled', ziff(up, eff['unimock_derive']), f'emitted={up}')
    O.add('C10', 'mockall-derivation-iff-enabled', ziff(mp, eff['mockall']), f'emitted={mp}')
    if up:
        O.add('C10', 'unimock-test-gated-unless-exported', ziff(ug, znot(eff['export'])), f'gated={ug}')
        c11_unimock_params(I, eff, [], [], [], uparams, 'trait', O)
    if mp:
        O.add('C10', 'mockall-test-gated-unless-exported', ziff(mg, znot(eff['export'])), f'gated={mg}')
    # ---- C07 / C13: the delegation-target trait ----------------------------------------------------------------------------------------
    if has_it:
        dt = top[1]
        it_name = impl_trait.fields[0].fields[1].name
        O.add('C07', 'delegation-target-trait-named-as-requested', name_eq(dt.name[1], it_name))
        O.add('C13', 'delegation-target-trait-takes-the-visibility-of-the-trait', toks_eq(dt.vis, I.toks(item0.f('vis'))), f'`{show(dt.vis)}` vs `{show(I.toks(item0.f("vis")))}`')
        O.add('C07', 'delegation-target-trait-generics-are-EntraitT-then-the-trait-generics', len(dt.generics) == 1 + len(gp_in) and
              toks_eq(dt.generics[0], [('I', 'EntraitT')]) is True and zand(*[toks_eq(a, b) for a, b in zip(dt.generics[1:], gp_in)]), f'{[show(g) for g in dt.generics]}')
        O.add('C07', 'delegation-target-trait-is-static', len(dt.supertraits) == 1 and toks_eq(dt.supertraits[0], [('LT', 'static')]) is True, f'{[show(g) for g in dt.supertraits]}')
        O.add('C10', 'no-mock-derivation-on-the-delegation-target-trait', not mock_attrs(dt)['unimock'][0] and not mock_attrs(dt)['mockall'][0])
        dfns = [x for x in dt.items if x.kind == 'fn']
        O.add('C07', 'delegation-target-trait-has-every-method', len(dfns) == len(methods))
        impl_ty = [('P', '&')] + list(IMPL_PATH)
        if len(dfns) == len(methods):
            for k, m in enumerate(methods):
                df = dfns[k]
                sig = I.f(m, 'sig')
                in_item = rsview.parse_items(I.toks(sig) + [('P', ';')])[0]
                user = [p for p in in_item.params if p.receiver is None]
                inrecv = [p for p in in_item.params if p.receiver is not None]
                dparams = [p for p in df.params if p.receiver is None]
                drecv = [p for p in df.params if p.receiver is not None]
                if not inrecv:
                    continue
                if kind == 'trait':
                    ok = len(drecv) == 0 and len(dparams) == len(user) + 1 and dparams[0].name() == '__impl'
                    if ok and inrecv[0].receiver['ref']:
                        want_ty = [('P', '&')] + ([inrecv[0].receiver['lifetime']] if inrecv[0].receiver['lifetime'] else []) + list(IMPL_PATH)
                        ok = toks_eq(dparams[0].ty, want_ty) is True
                    O.add('C07', f'm{k}:static-target-method-takes-(__impl: &Impl<T>, args)', ok, f'`{show(sig_tokens(df), 200)}`')
                else:
                    ok = len(drecv) == 1 and df.params[0].receiver is not None and len(dparams) == len(user) + 1 and dparams[0].name() == '__impl' and \
                        toks_eq(dparams[0].ty, impl_ty) is True
                    O.add('C07', f'm{k}:dynamic-target-method-takes-(&self, __impl: &Impl<T>, args)', ok, f'`{show(sig_tokens(df), 200)}`')
                # attributes of a method (a `cfg` above all) are mirrored on every copy of it: the trait, the delegating method
                # and the delegation-target trait
                ain_m = [I.toks(a)[1][2] for a in I.items(m, 'attrs')]
                O.add('C18', f'm{k}:method-attributes-mirrored-on-the-delegation-target-trait', len(df.attrs) == len(ain_m) and
                      zand(*[toks_eq(a, b) for a, b in zip(df.attrs, ain_m)]), f'{[show(a, 50) for a in df.attrs]} vs {[show(a, 50) for a in ain_m]}')
                rest_p = dparams[1:] if len(dparams) == len(user) + 1 else []
                O.add('C07', f'm{k}:target-method-keeps-the-arguments', len(rest_p) == len(user) and
                      zand(*[zand(toks_eq(a.pat, b.pat), toks_eq(a.ty, b.ty)) for a, b in zip(rest_p, user)]), f'`{show(sig_tokens(df), 200)}`')
        O.add('C12', 'async_trait-re-applied-to-the-delegation-target-trait', all(any(toks_eq(x, a) is True for x in dt.attrs) for a in at_attrs),
              f'{[show(a, 60) for a in dt.attrs]}')
        if kind == 'trait':
            sel = top[2]
            O.add('C07', 'selector-trait', name_eq(sel.name[1], delegate_ident) and len(sel.generics) == 1 and
                  toks_eq(sel.body, [('I', 'type'), ('I', 'Target'), ('P', ':'), ('I', it_name), ('P', '<'), ('I', 'T'), ('P', '>'), ('P', ';')]) is True,
                  f'`{show(sel.tokens, 200)}`')
    gen_part = []
    for t in top[1:]:
        gen_part += t.tokens
    bad = c19_unrooted_idents(gen_part, extra_ok=())
    O.add('C19', 'macro-originated-identifiers-are-rooted-or-reserved', not bad, f'bare identifiers {sorted(set(bad))}')
    static = kind in ('none', 'self', 'trait')
    O.add('C14', 'no-trait-object-or-box-in-static-delegation', (not static) or not contains_macro_ident(gen_part, ('dyn', 'Box')))
    return O


def T_colon():
    return [('I', 'EntraitT'), ('P', ':')]


def normalize_sync_path(toks):
    """`::core::marker::Sync` == `Sync` (and Send): spelling of the marker traits is not part of C06/C07"""
    out = []
    i = 0
    pre = [('P', '::'), ('I', 'core'), ('P', '::'), ('I', 'marker'), ('P', '::')]
    while i < len(toks):
        if i + 5 < len(toks) and [(t[0], t[1]) for t in toks[i:i + 5]] == pre and toks[i + 5][0] == 'I' and toks[i + 5][1] in ('Sync', 'Send'):
            out.append(toks[i + 5])
            i += 6
            continue
        t = toks[i]
        if t[0] == 'G':
            out.append((t[0], t[1], normalize_sync_path(t[2])) + tuple(t[3:]))
        else:
            out.append(t)
        i += 1
    return out


# ---------------------------------------------------------------------------
# front end: attribute lists (C17, C15)
# ---------------------------------------------------------------------------

DOCUMENTED_ERRORS = ('Unkonwn entrait option', 'Unsupported option', 'expected', 'unexpected')


class LazyToks:
    """token list view that forces a position only when the reference parser looks at it"""

    def __init__(self, ex, cells):
        self.ex = ex
        self.cells = cells

    def __len__(self):
        return len(self.cells)

    def get(self, i):
        from . import front
        if i >= len(self.cells):
            return front.END
        return front.tok_at(self.ex, front.PBuf(self.cells, i, 'a'))


def spec_front_attr(ex, target, cells, parsed, attr0):
    from . import front
    O = Obligations()
    lz = LazyToks(ex, cells)

    class LP(front.RefParse):
        def __init__(s2):
            s2.i = 0

        def peek(s2, k=0):
            return lz.get(s2.i + k)
    # run the reference grammar lazily
    ref = ref_parse_lazy(front, LP, target)
    kind = ref[0]
    got_ok = parsed.variant == 'Ok'
    if kind == 'unspecified':
        return O
    if kind == 'err':
        O.add('C17', 'undocumented-attribute-list-is-rejected', not got_ok, f'reference grammar rejects ({ref[1]}) but the macro accepted', cls=ref[1].replace(' ', '-'))
        if not got_ok:
            e = parsed.fields[0]
            msg = e.fields[1]
            O.add('C15', 'rejection-has-a-diagnostic-at-the-offending-token', isinstance(e.fields[0], Span) and e.fields[0].origin != 'call_site' and
                  isinstance(msg, str) and any(msg.startswith(p) or p in msg for p in DOCUMENTED_ERRORS), f'message `{msg}` span {e.fields[0]}')
            if ref[1].startswith('unknown option'):
                # (on a trait an unparsable first option is re-read as the delegation-target name: syn's own "expected .." diagnostic)
                O.add('C15', 'unknown-option-message', isinstance(msg, str) and (msg.startswith('Unkonwn entrait option') or
                                                                                (target == 'trait' and msg.startswith('expected '))), f'`{msg}`')
            if 'is not documented for' in ref[1]:
                self_val = any(lz.get(i) == ('I', 'Self') for i in range(len(cells)))
                O.add('C15', 'unsupported-option-message', isinstance(msg, str) and msg.startswith('Unsupported option'), f'`{msg}`',
                      cls='delegate_by=Self' if self_val and 'delegate_by' in ref[1] else ('no_deps-on-mod' if ref[1] == 'option no_deps is not documented for mod' else ''))
        return O
    res = ref[1]
    O.add('C17', 'documented-attribute-list-is-accepted', got_ok,
          f'reference grammar accepts {res} but the macro rejected: `{parsed.fields[0].fields[1] if not got_ok else ""}`',
          cls=('delegate_by=Self' if res['opts'].get('delegate_by') == 'Self' and any(lz.get(i) == ('I', 'Self') for i in range(len(cells))) else ''))
    if not got_ok:
        return O
    I = In(ex)
    opts = attr0.f('opts')

    def given(name):
        o = opts.f(name)
        return isinstance(o, Obj) and o.variant == 'Some'

    def val(name):
        return opts.f(name).fields[0].fields[0]
    for name in ('no_deps', 'debug', 'export', 'unimock', 'mockall'):
        want = res['opts'].get(name)
        O.add('C17', f'option-{name}-parsed-as-written', (given(name) == (want is not None)) and (want is None or val(name) == want),
              f'written {want}, parsed given={given(name)} value={val(name) if given(name) else None}')
    want = res['opts'].get('mock_api')
    O.add('C17', 'option-mock_api-parsed-as-written', (given('mock_api') == (want is not None)) and (want is None or opts.f('mock_api').fields[0].fields[0].name == want))
    O.add('C17', 'option-?Send-parsed-as-written', given('future_send') == ('?Send' in res['opts']) and
          (not given('future_send') or opts.f('future_send').fields[0].fields[0].fields[0] is False))
    if target in ('fn', 'mod'):
        O.add('C17', 'trait-name-parsed-as-written', attr0.f('trait_ident').name == res['ident'])
        v = show(I.toks(attr0.f('trait_visibility'))).replace(' ', '')
        O.add('C13', 'trait-visibility-parsed-as-written', v == res['vis'].replace(' ', ''), f'`{v}` vs `{res["vis"]}`')
    if target == 'trait':
        it = attr0.f('impl_trait')
        O.add('C17', 'delegation-target-trait-parsed-as-written', (it.variant == 'Some') == (res['ident'] is not None) and
              (res['ident'] is None or it.fields[0].fields[1].name == res['ident']))
        dk = attr0.f('delegation_kind')
        want = res['opts'].get('delegate_by')
        if want is None:
            got = dk.variant == 'None'
        else:
            d = dk.fields[0].fields[0] if dk.variant == 'Some' else None
            if d is None:
                got = False
            elif want == 'Self':
                got = d.variant == 'BySelf'
            elif want == 'ref':
                got = d.variant == 'ByRef' and d.fields[0].variant == 'AsRef'
            elif want == 'Borrow':
                got = d.variant == 'ByRef' and d.fields[0].variant == 'Borrow'
            else:
                got = d.variant == 'ByTrait' and d.fields[0].name == want[1]
        O.add('C17', 'option-delegate_by-parsed-as-written', got, f'written {want}')
    if target == 'impl':
        k = attr0.f('impl_kind').variant
        O.add('C17', 'impl-kind-parsed-as-written', (k == 'DynRef') == (res['impl_kind'] == 'ref'))
    return O


def ref_parse_lazy(front, LP, target):
    """front.ref_parse_attr with a lazily forcing token source"""
    p = LP()
    res = dict(vis=None, ident=None, opts={}, impl_kind=None)
    END = front.END

    def vis():
        if p.peek() == ('I', 'pub'):
            p.i += 1
            t = p.peek()
            if t != END and t[0] == 'G':
                p.i += 1
                return 'pub(crate)'
            return 'pub'
        return ''

    def add(o):
        if o[0] in ('err', 'unspecified'):
            return o
        if o[0] not in front.ACCEPTED[target]:
            return ('err', f'option {o[0]} is not documented for {target}')
        if o[0] in res['opts']:
            return ('unspecified', 'duplicate option')
        res['opts'][o[0]] = o[1]
        return None

    def is_name(t):
        return t != END and t[0] == 'I' and t[1] not in front.SYN_KEYWORDS

    if target in ('fn', 'mod'):
        res['vis'] = vis()
        t = p.peek()
        if not is_name(t):
            return ('err', 'trait identifier expected')
        res['ident'] = t[1]
        p.i += 1
        while p.peek() == ('P', ','):
            p.i += 1
            r = add(p.option(target))
            if r:
                return r
        if p.peek() != END:
            return ('err', 'unexpected token')
        return ('ok', res)
    if target == 'trait':
        if p.peek() == END:
            return ('ok', res)
        t = p.peek()
        first_is_opt = False
        if t == ('P', '?'):
            first_is_opt = True
        elif t != END and t[0] == 'I' and t[1] in front.BOOL_OPTS + ('mock_api', 'delegate_by'):
            save = p.i
            o = p.option(target)
            p.i = save
            if o[0] == 'unspecified':
                return o
            if o[0] == 'err':
                return ('unspecified', 'option keyword in trait-name position')
            first_is_opt = True
        if not first_is_opt:
            res['vis'] = vis()
            t = p.peek()
            if not is_name(t):
                return ('err', 'delegation-target trait identifier expected')
            res['ident'] = t[1]
            p.i += 1
            if p.peek() == ('P', ','):
                p.i += 1
            if p.peek() == END:
                return ('ok', res)
        while True:
            r = add(p.option(target))
            if r:
                return r
            if p.peek() == ('P', ','):
                p.i += 1
                if p.peek() == END:
                    return ('unspecified', 'trailing comma')
            else:
                break
        if p.peek() != END:
            return ('err', 'unexpected token')
        return ('ok', res)
    if target == 'impl':
        kind = 'static'
        if p.peek() == ('I', 'ref'):
            p.i += 1
            kind = 'ref'
        if p.peek() == ('I', 'dyn'):
            p.i += 1
            kind = 'ref'
        res['impl_kind'] = kind
        if p.peek() == END:
            return ('ok', res)
        if kind == 'ref' and p.peek() == ('P', ','):
            return ('unspecified', 'separator after ref')
        while True:
            r = add(p.option(target))
            if r:
                return r
            if p.peek() == ('P', ','):
                p.i += 1
                if p.peek() == END:
                    return ('unspecified', 'trailing comma')
            else:
                break
        if p.peek() != END:
            return ('err', 'unexpected token')
        return ('ok', res)
    raise ValueError(target)


# ---------------------------------------------------------------------------
# front end: items (C08 classification, C02 verbatim re-emission incl. what Input::parse consumes before dispatching)
# ---------------------------------------------------------------------------

def spec_front_item(ex, what, cells, parsed, out_value):
    from . import front
    O = Obligations()
    I = In(ex)
    if what in ('mod', 'impl'):
        ref = front.ref_items(ex, cells, pub_only=(what == 'mod'))
        if ref[0] == 'unspecified':
            # not legal Rust: rustc never hands such a body to the macro, and a client crate containing it would not even parse -
            # keep it out of the translator-validation sample
            ex.notes['skip_validation'] = True
            return O
        if ref[0] == 'err':
            O.add('C15', 'malformed-body-is-rejected-with-a-diagnostic', parsed.variant == 'Err', f'reference: {ref[1]}; the macro accepted')
            return O
        O.add('C08', 'well-formed-body-is-accepted', parsed.variant == 'Ok',
              f'reference classification succeeded but the macro rejected: `{parsed.fields[0].fields[1] if parsed.variant == "Err" else ""}`')
        if parsed.variant != 'Ok':
            return O
        items = ref[1]
        want_fns = [nm for k, nm, a, b in items if k == 'fn']
        inp = parsed.fields[0].fields[0]
        got = []
        for it in inp.f('items').items:
            if it.variant in ('PubFn', 'Fn'):
                got.append(it.fields[0].fields[0].f('fn_sig').f('ident').name)
        O.add('C08', 'methods-are-exactly-the-visible-functions-in-source-order', got == want_fns, f'classified {got}, reference {want_fns}')
        O.add('C08', 'item-count', len(inp.f('items').items) == len(items), f'{len(inp.f("items").items)} vs {len(items)}')
        if out_value.variant != 'Ok':
            return O   # back-end rejection (e.g. missing deps): judged by the back-end slices
        toks = I.P.flat(out_value.fields[0].toks)
        # C02: the body of the emitted module / inherent impl starts with the input tokens, verbatim
        try:
            top = rsview.parse_items(toks)
        except Exception as e:
            O.add('C15', 'generated-items-parse', False, f'{type(e).__name__}: {e}')
            return O
        body = top[0].body if top else []
        n_in = sum(b - a for _, _, a, b in items)
        src = []
        for i in range(n_in):
            t = cells[i]
            if isinstance(t, tuple):
                src.append(front.view_tok(t))
            else:
                src += front.tk_flat(t, I.resolve_if_decided, I.P.known) if isinstance(t, Obj) else [('ATOM', t.key, 'input')]
        O.add('C02', 'body-re-emitted-token-for-token', toks_eq(body[:len(src)], src), f'`{show(body[:len(src)], 240)}` vs `{show(src, 240)}`')
        if what == 'mod' and len(top) >= 1:
            tr = [x for x in rsview.parse_items(body[len(src):]) if x.kind == 'trait']
            if tr:
                mnames = [m.name[1] for m in tr[0].items if m.kind == 'fn']
                O.add('C08', 'trait-methods-are-the-classified-functions', mnames == want_fns, f'{mnames} vs {want_fns}')
        return O
    # a single item: whatever Input::parse consumes before dispatching must be re-emitted (C02 / C03)
    if parsed.variant != 'Ok' or out_value.variant != 'Ok':
        return O
    inp = parsed.fields[0]
    if inp.variant == 'Trait' and what == 'trait':
        # C09: what is written in front of `trait` (attributes, visibility, `unsafe`) is consumed by Input::parse before it knows
        # what kind of item follows; the trait handed to the trait back end must still carry all of it
        pbw = front.PBuf(cells, 0, 'written')
        w_attrs = []
        while front.punct_is(ex, front.tok_at(ex, pbw), '#'):
            w_attrs.append(front.view_tok(front.tok_at(ex, pbw, 1))[2])
            pbw.pos += 2
        w_vis = []
        if front.ident_is(ex, front.tok_at(ex, pbw), 'pub'):
            w_vis.append(('I', 'pub'))
            pbw.pos += 1
            t2 = front.tok_at(ex, pbw)
            if t2 != front.END and front.tk_group_delim(ex, t2) == '(':
                w_vis.append(front.view_tok(t2))
                pbw.pos += 1
        w_unsafe = front.ident_is(ex, front.tok_at(ex, pbw), 'unsafe')
        it = inp.fields[0]
        got_vis = I.toks(it.f('vis'))
        O.add('C09', 'front:trait-visibility-survives-parsing', toks_eq(got_vis, w_vis), f'written `{show(w_vis)}` parsed `{show(got_vis)}`')
        O.add('C09', 'front:unsafe-survives-parsing', (it.f('unsafety').variant == 'Some') == bool(w_unsafe), f'written unsafe={w_unsafe}')
        got_attrs = [I.toks(a)[1][2] for a in it.f('attrs').items]
        O.add('C09', 'front:trait-attributes-survive-parsing', len(got_attrs) == len(w_attrs) and zand(*[toks_eq(a, b) for a, b in zip(got_attrs, w_attrs)]),
              f'written {[show(a, 40) for a in w_attrs]} parsed {[show(a, 40) for a in got_attrs]}')
        # and the emitted trait carries the written visibility (C09 / C13)
        toks = I.P.flat(out_value.fields[0].toks)
        try:
            top = rsview.parse_items(toks)
            tr = [x for x in top if x.kind == 'trait']
            if tr:
                O.add('C09', 'trait-visibility-kept', toks_eq(tr[0].vis, w_vis), f'`{show(tr[0].vis)}` vs written `{show(w_vis)}`')
        except Exception as e:
            O.add('C15', 'generated-items-parse', False, f'{type(e).__name__}: {e}')
        return O
    if inp.variant != 'Fn':
        return O
    # precondition: a legal fn item `attrs* vis? quals fn IDENT (..) [-> T] { .. }` and nothing after it
    ref = front.ref_items(ex, cells, pub_only=False)
    if ref[0] != 'ok' or len(ref[1]) != 1 or ref[1][0][0] != 'fn':
        if ref[0] != 'ok':
            ex.notes['skip_validation'] = True
        return O
    toks = I.P.flat(out_value.fields[0].toks)
    src = []
    for t in cells:
        if isinstance(t, Sym) or front.tk_is_end(t):
            break
        src += [front.view_tok(t)] if isinstance(t, tuple) else front.tk_flat(t, I.resolve_if_decided, I.P.known)
    O.add('C02', 'fn-item-re-emitted-token-for-token', toks_eq(toks[:len(src)], src), f'`{show(toks[:len(src)], 240)}` vs `{show(src, 240)}`',
          cls='leading-unsafe-of-a-single-fn' if any(t[0] == 'I' and t[1] == 'unsafe' for t in src[:6]) and not any(t[0] == 'I' and t[1] == 'unsafe' for t in toks[:len(src)]) else '')
    return O
