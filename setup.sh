#!/bin/sh
# Offline setup after a fresh restore: nothing is fetched. Creates the scratch / cache / evidence directories and warms
# the build caches (nightly MIR dump of entrait_macros, recorder client, Kani harness crate in its three build flavours).
set -e
cd "$(dirname "$0")"
mkdir -p work .cache evidence
export CARGO_NET_OFFLINE=true
exec python3-vt -m vlib.warm
