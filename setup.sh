#!/bin/sh
# Offline setup: nothing to fetch. Warm caches lazily on first check.
set -e
cd "$(dirname "$0")"
mkdir -p work .cache evidence
exit 0
