from xeng import progs, progs2, progs3
from . import _common


def run(out):
    _common.run(out, 'C14', x=[dict(fn=progs3.c14_corpus, name='c14', kani_extra=('-Z', 'stubbing'))], s_props=['C14'])
