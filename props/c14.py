from . import _common


def run(out):
    _common.run(out, 'C14', s_props=['C14'])
