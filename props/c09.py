from . import _common


def run(out):
    _common.run(out, 'C09', s_props=['C09'])
