from xeng import progs, progs2, progs3
from . import _common


def run(out):
    _common.run(out, 'C09', x=[dict(fn=progs3.c09_corpus, name='c09', compile_violation=True, compile_only=True)], s_props=['C09'])
