from . import _common


def run(out):
    _common.run(out, 'C16', s_props=['C16'])
