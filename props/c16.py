from xeng import progs, progs2, progs3
from . import _common


def run(out):
    _common.run(out, 'C16', x=[dict(fn=progs.c01_corpus, name='c16', compile_violation=True, compile_only=True, filter=lambda p: any(k in p.desc for k in ('tup', 'n1', 'n2', "'s'", 'refpat', 'wild', 'raw', 'fname', 'mut_u32', 'atpat')))], s_props=['C16'])
