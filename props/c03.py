from . import _common


def run(out):
    _common.run(out, 'C03', s_props=['C03'])
