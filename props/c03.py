from xeng import progs, progs2, progs3
from . import _common


def run(out):
    _common.run(out, 'C03', x=[dict(fn=progs3.c03_corpus, name='c03', compile_violation=True), dict(fn=progs.c01_corpus, name='c03_c01', compile_violation=True, compile_only=True)], s_props=['C03'])
