from xeng import progs, progs2, progs3
from . import _common


def run(out):
    _common.run(out, 'C13', x=[dict(fn=progs3.c08_corpus, name='c13', compile_violation=True, filter=lambda p: 'C13' in p.props)], s_props=['C13'])
