from . import _common


def run(out):
    _common.run(out, 'C13', s_props=['C13'])
