from xeng import progs, progs2, progs3
from . import _common


def run(out):
    _common.run(out, 'C07', x=[dict(fn=progs2.c07_corpus, name='c07')], s_props=['C07'])
