from xeng import progs2
from . import _common


def run(out):
    _common.run(out, 'C07', x_corpora=[(progs2.c07_corpus, 'c07')], s_props=['C07'])
