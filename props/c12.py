from . import _common


def run(out):
    _common.run(out, 'C12', s_props=['C12'])
