from xeng import progs, progs2, progs3
from . import _common


def run(out):
    _common.run(out, 'C12', x=[dict(fn=progs3.c12_corpus, name='c12', compile_violation=True)], s_props=['C12'])
