"""A property check = optional Engine-X part + optional Engine-S part."""
from . import _x, _s, sprops
from xeng import driver


def run(out, prop, x_corpora=(), s_props=None, level=None, x_kwargs=None):
    """x_corpora: list of (corpus_fn, name) ; s_props: obligations of which properties count for this check"""
    has_x = bool(x_corpora)
    sl = sprops.slices_for(prop, out.tier) if s_props is not None else []
    out.level = level or ('model_checking' if has_x else 'other')
    for corpus_fn, name in x_corpora:
        corpus = corpus_fn(out.tier, out.seed)
        st = driver.run_corpus(out, corpus, f'x_{name}_{out.tier}', **(x_kwargs or {}))
        _x.merge_x(out, st, corpus)
    if sl:
        _s.run_s(out, sl, s_props or [prop])
    if not has_x:
        c = out.coverage
        c.setdefault('states', max(1, c.get('s_paths', 0)))
        c.setdefault('transitions', max(1, c.get('obligations', 0)))
