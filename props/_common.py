"""A property check = optional Engine-X part(s) + optional Engine-S part."""
from . import _x, _s, sprops
from xeng import driver


# the level recorded in evidence is the category claimed in MANIFEST.json (X-led: bounded model checking of the expansions;
# S-led: "other" = bounded symbolic execution of the macro with z3-discharged obligations)
LEVEL = {'C01': 'model_checking', 'C05': 'model_checking', 'C06': 'model_checking', 'C07': 'model_checking', 'C14': 'model_checking'}


def run(out, prop, x=(), s_props=None, level=None):
    """x: list of dict(fn=corpus_fn, name=str, unimock=bool, tests=bool, kani_extra=(), compile_violation=bool, compile_only=bool)"""
    has_x = bool(x)
    sl = sprops.slices_for(prop, out.tier) if s_props is not None else []
    out.level = level or LEVEL.get(prop, 'other')
    for spec in x:
        corpus = spec['fn'](out.tier, out.seed)
        if spec.get('filter'):
            corpus = [p for p in corpus if spec['filter'](p)]
        st = driver.run_corpus(out, corpus, f"x_{spec['name']}_{out.tier}", unimock_feature=spec.get('unimock', False), tests=spec.get('tests', False),
                               kani_extra=spec.get('kani_extra', ()), compile_failure_is_violation=spec.get('compile_violation', 'coded'),
                               compile_only=spec.get('compile_only', False))
        _x.merge_x(out, st, corpus)
    if sl:
        _s.run_s(out, sl, s_props or [prop])
    c = out.coverage
    # model_checking keys: states = solver-checked properties (CBMC) + explored symbolic paths, transitions = harnesses + obligations
    c['states'] = max(1, c.get('states', 0) + c.get('s_paths', 0))
    c['transitions'] = max(1, c.get('transitions', 0) + c.get('obligations', 0))
    c.setdefault('transitions', max(1, c.get('obligations', 0)))
    c.setdefault('traces_validated_against_impl', 0)
    c.setdefault('samples', [dict(note='no sample recorded')])
