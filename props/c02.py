from xeng import progs, progs2, progs3
from . import _common


def run(out):
    _common.run(out, 'C02', x=[dict(fn=progs3.c02_corpus, name='c02', compile_violation=True)], s_props=['C02'])
