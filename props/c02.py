from . import _common


def run(out):
    _common.run(out, 'C02', s_props=['C02'])
