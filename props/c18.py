from xeng import progs, progs2, progs3
from . import _common


def run(out):
    _common.run(out, 'C18', x=[dict(fn=progs3.c02_corpus, name='c18', filter=lambda p: 'C18' in p.props)], s_props=['C18'])
