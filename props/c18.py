from . import _common


def run(out):
    _common.run(out, 'C18', s_props=['C18'])
