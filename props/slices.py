"""Named slices of the input space for Engine S.  A slice = bounds + the dimensions concretised to a default
(`fixed`: regex on the lazy node's key -> label of the alternative).  Every slice is explored path-completely;
the claim of a check is the union of its slices (stated in evidence)."""

SIMPLE_SIG = [
    (r'fn\.attrs$', 'len=0'), (r'\.vis$', 'inherited'), (r'attr\.vis$', 'pub'),
    (r'\.sig\.const$', 'absent'), (r'\.sig\.unsafe$', 'absent'), (r'\.sig\.abi$', 'None'),
    (r'\.generics\.params$', 'len=0'), (r'\.generics\.where$', 'None'),
]
ONE_PARAM = [(r'\.sig\.inputs$', 'len=2'), (r'inputs\[0\]$', 'typed'), (r'inputs\[0\]\.pat$', 'deps'), (r'inputs\[\d\]\.pat$', 'ident'),
             (r'inputs\[\d\]\.attrs$', 'len=0')]
DEPS_IMPL1 = [(r'inputs\[0\]\.ty$', '&'), (r'inputs\[0\]\.ty\.&$', 'impl'), (r'\.impl$', 'len=1'), (r'\.lt$', 'None')]
SYNC_UNIT = [(r'\.sig\.async$', 'absent'), (r'\.sig\.output$', '()')]
NO_OPTS = ()


def fn_slices(tier):
    big = tier != 'quick'
    sl = []
    # 1. how the dependency is declared (C03 C04 C05 C01 C15)
    sl.append(dict(name='fn/deps-decl', mode='fn', opts_only=('no_deps',),
                   bounds=dict(max_params=1, max_generics=2 if big else 1, max_where=2 if big else 1, max_deps_bounds=2, max_wrappers=2 if big else 1,
                               max_fn_attrs=0, max_param_attrs=0, pat_depth=0),
                   fixed=[(r'fn\.attrs$', 'len=0'), (r'\.vis$', 'inherited'), (r'attr\.vis$', 'pub'), (r'\.sig\.output$', '()'),
                          (r'inputs\[[1-9]\]\.pat$', 'ident'), (r'inputs\[0\]\.pat$', 'deps'), (r'\.sig\.async$', 'absent')]))
    sl.append(dict(name='fn/deps-decl-2generics', mode='fn', opts_only=(),
                   bounds=dict(max_params=0, max_generics=2, max_where=2, max_deps_bounds=1, max_wrappers=0, max_fn_attrs=0, max_param_attrs=0, pat_depth=0),
                   fixed=[(r'fn\.attrs$', 'len=0'), (r'\.vis$', 'inherited'), (r'attr\.vis$', 'pub'), (r'\.sig\.output$', '()'),
                          (r'inputs\[0\]\.pat$', 'deps'), (r'\.sig\.async$', 'absent'), (r'\.sig\.inputs$', 'len=1'), (r'inputs\[0\]$', 'typed')]))
    # 1b. lifetime bounds on generic type parameters (`T: 'a` with `'a` a parameter of the fn) (C03)
    sl.append(dict(name='fn/lifetime-bounds', mode='fn', opts_only=('no_deps',),
                   bounds=dict(max_params=0, max_generics=2, max_where=1, max_deps_bounds=1, max_wrappers=1, max_fn_attrs=0, max_param_attrs=0, pat_depth=0,
                               lifetime_bounds=True, deps_kinds=('&', 'path:D', 'impl')),
                   fixed=[(r'fn\.attrs$', 'len=0'), (r'\.vis$', 'inherited'), (r'attr\.vis$', 'pub'), (r'\.sig\.output$', '()'),
                          (r'inputs\[0\]\.pat$', 'deps'), (r'\.sig\.async$', 'absent'), (r'\.sig\.inputs$', 'len=1'), (r'inputs\[0\]$', 'typed'),
                          (r'\.sig\.const$', 'absent'), (r'\.sig\.unsafe$', 'absent'), (r'\.sig\.abi$', 'None'), (r'\.lt$', 'None')]))
    # 1c. async fns x how the dependency is declared (several bounds = "fan-in") (C14 C12)
    sl.append(dict(name='fn/async-deps', mode='fn', opts_only=('future_send',),
                   bounds=dict(max_params=1, max_generics=1, max_where=1, max_deps_bounds=2, max_wrappers=1, max_fn_attrs=0, max_param_attrs=0, pat_depth=0,
                               deps_kinds=('&', 'path:D', 'impl')),
                   fixed=[(r'fn\.attrs$', 'len=0'), (r'\.vis$', 'inherited'), (r'attr\.vis$', 'pub'), (r'\.sig\.output$', '()'),
                          (r'inputs\[0\]\.pat$', 'deps'), (r'inputs\[[1-9]\]\.pat$', 'ident'), (r'\.sig\.async$', 'Async'), (r'inputs\[0\]$', 'typed'),
                          (r'inputs\[\d\]\.attrs$', 'len=0'),
                          (r'\.sig\.const$', 'absent'), (r'\.sig\.unsafe$', 'absent'), (r'\.sig\.abi$', 'None'), (r'\.lt$', 'None')]))
    # 2. the option lattice x macro variants (C10 C11 C04 C17)
    for v in ('entrait', 'entrait_export', 'entrait_unimock', 'entrait_export_unimock'):
        sl.append(dict(name=f'fn/opts/{v}', mode='fn', variant=v, meta=True,
                       bounds=dict(max_params=1, max_generics=0, max_where=0, max_deps_bounds=1, max_wrappers=1, max_fn_attrs=0, max_param_attrs=0, pat_depth=0),
                       fixed=SIMPLE_SIG + ONE_PARAM + [(r'inputs\[0\]\.ty$', '&'), (r'inputs\[0\]\.ty\.&$', 'impl'), (r'\.lt$', 'None'), (r'\.sig\.output$', '()')]))
    # 2a. the same lattice for a concrete dependency (the leaf trait is expanded once more by a nested attribute) (C10 C05)
    for v in ('entrait', 'entrait_export_unimock'):
        sl.append(dict(name=f'fn/opts-concrete/{v}', mode='fn', variant=v,
                       bounds=dict(max_params=0, max_generics=0, max_where=0, max_deps_bounds=1, max_wrappers=1, max_fn_attrs=0, max_param_attrs=0, pat_depth=0,
                                   deps_kinds=('&',), deps_inner_kinds=('path:C',)),
                       opts_only=('unimock', 'mockall', 'mock_api', 'export'),
                       fixed=SIMPLE_SIG + [(r'\.sig\.inputs$', 'len=1'), (r'inputs\[0\]$', 'typed'), (r'inputs\[0\]\.pat$', 'deps'), (r'inputs\[\d\]\.attrs$', 'len=0'),
                                           (r'\.lt$', 'None'), (r'\.sig\.output$', '()'), (r'\.sig\.async$', 'absent')]))
    # 2b. unmock entries per dependency kind, argument order for no_deps (C11)
    sl.append(dict(name='fn/unmock', mode='fn', opts_only=('no_deps', 'unimock', 'mock_api'),
                   bounds=dict(max_params=2, max_generics=1, max_where=0, max_deps_bounds=1, max_wrappers=1, max_fn_attrs=0, max_param_attrs=0, pat_depth=0,
                               deps_kinds=('&', 'path:D', 'path:C', 'impl')),
                   fixed=[(r'fn\.attrs$', 'len=0'), (r'\.vis$', 'inherited'), (r'attr\.vis$', 'pub'), (r'\.sig\.output$', '()'), (r'\.sig\.async$', 'absent'),
                          (r'inputs\[[1-9]\]\.pat$', 'ident'), (r'inputs\[0\]\.pat$', 'deps'), (r'\.lt$', 'None'), (r'\.sig\.const$', 'absent'),
                          (r'\.sig\.unsafe$', 'absent'), (r'\.sig\.abi$', 'None'), (r'\.generics\.where$', 'None'), (r'opts\.mock_api$', 'Some'),
                          (r'inputs\[0\]$', 'typed')]))
    # 2c. the same with a parameter spelled like the fn (the un-mocked call must still reach the fn) (C11)
    sl.append(dict(name='fn/unmock-fname', mode='fn', opts_only=('no_deps', 'unimock', 'mock_api'), fn_name='py',
                   bounds=dict(max_params=2, max_generics=1, max_where=0, max_deps_bounds=1, max_wrappers=1, max_fn_attrs=0, max_param_attrs=0, pat_depth=0,
                               deps_kinds=('&', 'path:D', 'impl'), pat_kinds=('ident', '_')),
                   fixed=[(r'fn\.attrs$', 'len=0'), (r'\.vis$', 'inherited'), (r'attr\.vis$', 'pub'), (r'\.sig\.output$', '()'), (r'\.sig\.async$', 'absent'),
                          (r'inputs\[0\]\.pat$', 'deps'), (r'\.lt$', 'None'), (r'\.sig\.const$', 'absent'),
                          (r'\.sig\.unsafe$', 'absent'), (r'\.sig\.abi$', 'None'), (r'\.generics\.where$', 'None'), (r'opts\.mock_api$', 'Some'),
                          (r'inputs\[0\]$', 'typed')]))
    # 3. parameter patterns (C16 C01 C18)
    sl.append(dict(name='fn/patterns-2params', mode='fn', opts_only=(),
                   bounds=dict(max_params=2, max_generics=0, max_where=0, max_deps_bounds=1, max_wrappers=1, max_fn_attrs=0, max_param_attrs=0,
                               pat_depth=1 if big else 0, pat_width=2),
                   fixed=SIMPLE_SIG + DEPS_IMPL1 + SYNC_UNIT + [(r'inputs\[0\]$', 'typed'), (r'inputs\[0\]\.pat$', 'deps'), (r'inputs\[\d\]\.attrs$', 'len=0')]))
    sl.append(dict(name='fn/patterns', mode='fn', opts_only=('no_deps',),
                   bounds=dict(max_params=2 if big else 1, max_generics=0, max_where=0, max_deps_bounds=1, max_wrappers=1, max_fn_attrs=0, max_param_attrs=1,
                               pat_depth=2 if big else 1, pat_width=2),
                   fixed=SIMPLE_SIG + DEPS_IMPL1 + SYNC_UNIT + [(r'inputs\[0\]$', 'typed'), (r'inputs\[0\]\.pat$', 'deps'), (r'inputs\[0\]\.attrs$', 'len=0')]))
    # 4. parameter / function names as solver strings (C16)
    sl.append(dict(name='fn/symbolic-names', mode='fn', opts_only=(), solver_timeout_ms=20000,
                   bounds=dict(max_params=2, max_generics=0, max_where=0, max_deps_bounds=1, max_wrappers=1, max_fn_attrs=0, max_param_attrs=0,
                               pat_depth=1 if big else 0, pat_width=2 if big else 1, sym_names=True),
                   fixed=SIMPLE_SIG + DEPS_IMPL1 + SYNC_UNIT + [(r'inputs\[0\]$', 'typed'), (r'inputs\[0\]\.pat$', 'ident'), (r'inputs\[\d\]\.attrs$', 'len=0')]))
    # 4b. three user parameters (a generated name against TWO written ones), identifier or wildcard patterns only
    sl.append(dict(name='fn/symbolic-names-3', mode='fn', opts_only=(), solver_timeout_ms=20000,
                   bounds=dict(max_params=3, max_generics=0, max_where=0, max_deps_bounds=1, max_wrappers=1, max_fn_attrs=0, max_param_attrs=0,
                               pat_depth=0, pat_width=1, sym_names=True, pat_kinds=('ident', '_')),
                   fixed=SIMPLE_SIG + DEPS_IMPL1 + SYNC_UNIT + [(r'inputs\[0\]$', 'typed'), (r'inputs\[0\]\.pat$', 'ident'), (r'inputs\[\d\]\.attrs$', 'len=0'),
                                                                 (r'\.sig\.inputs$', 'len=4')]))
    # 4c. a parameter spelled like the fn (the delegating call must still name the fn itself) (C01 C16)
    sl.append(dict(name='fn/fname-param', mode='fn', opts_only=('no_deps',), fn_name='py',
                   bounds=dict(max_params=2, max_generics=0, max_where=0, max_deps_bounds=1, max_wrappers=1, max_fn_attrs=0, max_param_attrs=0, pat_depth=1, pat_width=1),
                   fixed=SIMPLE_SIG + DEPS_IMPL1 + SYNC_UNIT + [(r'inputs\[0\]$', 'typed'), (r'inputs\[0\]\.pat$', 'deps'), (r'inputs\[\d\]\.attrs$', 'len=0')]))
    # 5. attributes below entrait, async, ?Send, return type (C18 C12 C14)
    sl.append(dict(name='fn/attrs-async', mode='fn', opts_only=('future_send', 'no_deps'),
                   bounds=dict(max_params=1, max_generics=0, max_where=0, max_deps_bounds=1, max_wrappers=1, max_fn_attrs=2 if big else 1, max_param_attrs=1, pat_depth=0),
                   fixed=[(r'\.vis$', 'inherited'), (r'attr\.vis$', 'pub'), (r'\.generics\.params$', 'len=0'), (r'\.generics\.where$', 'None'),
                          (r'inputs\[0\]\.pat$', 'deps'), (r'inputs\[[1-9]\]\.pat$', 'ident'), (r'\.sig\.inputs$', 'len=2'), (r'inputs\[0\]$', 'typed'),
                          (r'inputs\[0\]\.attrs$', 'len=0')] + DEPS_IMPL1))
    # 6. visibilities (C13 C02)
    sl.append(dict(name='fn/visibility', mode='fn', opts_only=(),
                   bounds=dict(max_params=0, max_generics=0, max_where=0, max_deps_bounds=1, max_wrappers=1, max_fn_attrs=1, max_param_attrs=0, pat_depth=0,
                               vis_alts=('inherited', 'pub', 'pub_crate', 'pub_super', 'pub_in')),
                   fixed=[(r'\.sig\.const$', 'absent'), (r'\.sig\.unsafe$', 'absent'), (r'\.sig\.abi$', 'None'), (r'\.generics\.params$', 'len=0'),
                          (r'\.generics\.where$', 'None'), (r'\.sig\.inputs$', 'len=1'), (r'inputs\[0\]$', 'typed'), (r'inputs\[0\]\.pat$', 'deps'),
                          (r'inputs\[0\]\.attrs$', 'len=0')] + DEPS_IMPL1 + SYNC_UNIT))
    # 7. qualifiers (C02 C03 C08)
    sl.append(dict(name='fn/qualifiers', mode='fn', opts_only=('no_deps',),
                   bounds=dict(max_params=1, max_generics=1, max_where=0, max_deps_bounds=1, max_wrappers=1, max_fn_attrs=0, max_param_attrs=0, pat_depth=0,
                               qualifiers=True),
                   fixed=[(r'fn\.attrs$', 'len=0'), (r'\.vis$', 'inherited'), (r'attr\.vis$', 'pub'), (r'\.generics\.where$', 'None'),
                          (r'inputs\[0\]$', 'typed'), (r'inputs\[0\]\.pat$', 'deps'), (r'inputs\[[1-9]\]\.pat$', 'ident')] + DEPS_IMPL1))
    return sl


def mod_slices(tier):
    big = tier != 'quick'
    sl = []
    base_fixed = [(r'mod\.attrs$', 'len=0'), (r'mod\.vis$', 'inherited'), (r'\.sig\.const$', 'absent'), (r'\.sig\.unsafe$', 'absent'), (r'\.sig\.abi$', 'None'),
                  (r'\.generics\.where$', 'None'), (r'inputs\[0\]\.pat$', 'deps'), (r'inputs\[[1-9]\]\.pat$', 'ident'), (r'inputs\[\d\]\.attrs$', 'len=0'),
                  (r'\.sig\.output$', '()'), (r'\.lt$', 'None')]
    # module items: which become methods, order, several fns contributing bounds (C08 C01 C04 C02 C13)
    sl.append(dict(name='mod/items', mode='mod', opts_only=('no_deps',) if big else (), max_items=3 if big else 2,
                   bounds=dict(max_params=1, max_generics=1 if big else 0, max_where=0, max_deps_bounds=2, max_wrappers=1, max_fn_attrs=0, max_param_attrs=0, pat_depth=0,
                               deps_kinds=('path:D', 'path:C', 'impl', '&'), vis_alts=('inherited', 'pub', 'pub_crate')),
                   fixed=base_fixed + [(r'items\[\d\]\.attrs$', 'len=0'), (r'\.sig\.async$', 'absent'), (r'\.sig\.inputs$', 'len=2'), (r'inputs\[0\]$', 'typed')]))
    # several fns whose `impl Trait` bounds share a last path segment without being the same trait (`B0`, `ma::B0`, `B0<u8>`) (C04)
    sl.append(dict(name='mod/bound-shapes', mode='mod', opts_only=(), max_items=2,
                   bounds=dict(max_params=0, max_generics=0, max_where=0, max_deps_bounds=2, max_wrappers=1, max_fn_attrs=0, max_param_attrs=0, pat_depth=0,
                               deps_kinds=('&',), deps_inner_kinds=('impl',), vis_alts=('pub',), bound_shapes=True),
                   fixed=base_fixed + [(r'items\[\d\]\.attrs$', 'len=0'), (r'\.sig\.async$', 'absent'), (r'\.sig\.inputs$', 'len=1'), (r'inputs\[0\]$', 'typed'),
                                       (r'items\[\d\]$', 'pub fn'), (r'attr\.vis$', 'pub')]))
    # visibilities (C13 C08)
    sl.append(dict(name='mod/visibility', mode='mod', opts_only=(), max_items=1,
                   bounds=dict(max_params=0, max_generics=0, max_where=0, max_deps_bounds=1, max_wrappers=1, max_fn_attrs=0, max_param_attrs=0, pat_depth=0,
                               vis_alts=('inherited', 'pub', 'pub_crate', 'pub_super', 'pub_in')),
                   fixed=[f for f in base_fixed if f[0] != r'mod\.vis$'] + [(r'items\[\d\]\.attrs$', 'len=0'), (r'\.sig\.async$', 'absent'), (r'\.sig\.inputs$', 'len=1'), (r'inputs\[0\]$', 'typed'),
                                       (r'inputs\[0\]\.ty$', '&'), (r'inputs\[0\]\.ty\.&$', 'impl'), (r'\.impl$', 'len=1'), (r'\.generics\.params$', 'len=0')]))
    # attributes on the module and on its fns, async, options (C18 C12 C10 C11)
    sl.append(dict(name='mod/attrs-async-opts', mode='mod', max_items=2 if big else 1,
                   bounds=dict(max_params=1, max_generics=0, max_where=0, max_deps_bounds=1, max_wrappers=1, max_fn_attrs=1, max_param_attrs=0, pat_depth=0,
                               deps_kinds=('impl', '&', 'path:C'), vis_alts=('inherited', 'pub')),
                   opts_only=('unimock', 'mock_api', 'mockall', 'export', 'future_send'),
                   fixed=base_fixed + [(r'\.sig\.inputs$', 'len=2'), (r'inputs\[0\]$', 'typed'), (r'\.impl$', 'len=1'), (r'attr\.vis$', 'pub')]))
    # option spellings on modules against their canonical spelling (C17)
    for v in ('entrait', 'entrait_export_unimock'):
        sl.append(dict(name=f'mod/meta/{v}', mode='mod', variant=v, meta=True, max_items=2 if big else 1,
                       bounds=dict(max_params=1, max_generics=0, max_where=0, max_deps_bounds=1, max_wrappers=1, max_fn_attrs=0, max_param_attrs=0, pat_depth=0,
                                   deps_kinds=('impl', '&'), vis_alts=('pub',)),
                       opts_only=('no_deps', 'unimock', 'mock_api', 'mockall', 'export'),
                       fixed=base_fixed + [(r'\.sig\.inputs$', 'len=2'), (r'inputs\[0\]$', 'typed'), (r'\.impl$', 'len=1'), (r'attr\.vis$', 'pub'),
                                           (r'\.sig\.async$', 'absent'), (r'items\[\d\]\.attrs$', 'len=0'), (r'mod\.attrs$', 'len=0')]))
    return sl


def impl_slices(tier):
    big = tier != 'quick'
    sl = []
    base_fixed = [(r'\.sig\.const$', 'absent'), (r'\.sig\.unsafe$', 'absent'), (r'\.sig\.abi$', 'None'), (r'\.generics\.where$', 'None'),
                  (r'inputs\[0\]\.pat$', 'deps'), (r'inputs\[[1-9]\]\.pat$', 'ident'), (r'inputs\[\d\]\.attrs$', 'len=0'), (r'\.sig\.output$', '()'), (r'\.lt$', 'None')]
    sl.append(dict(name='impl/items', mode='impl', max_items=3 if big else 2,
                   bounds=dict(max_params=1, max_generics=1 if big else 0, max_where=0, max_deps_bounds=2 if big else 1, max_wrappers=1, max_fn_attrs=1 if big else 0, max_param_attrs=0, pat_depth=0,
                               deps_kinds=('&',), deps_inner_kinds=('path:D', 'path:C', 'impl'), vis_alts=('inherited', 'pub'), bound_shapes=True),
                   fixed=base_fixed + [(r'impl\.attrs$', 'len=0'), (r'\.sig\.inputs$', 'len=2'), (r'inputs\[0\]$', 'typed')]))
    # parameter patterns of impl-block fns (the same naming pass must run for them) (C07 C16 C15 C01)
    sl.append(dict(name='impl/patterns', mode='impl', max_items=1,
                   bounds=dict(max_params=2, max_generics=0, max_where=0, max_deps_bounds=1, max_wrappers=1, max_fn_attrs=0, max_param_attrs=0, pat_depth=1, pat_width=1,
                               deps_kinds=('&',), deps_inner_kinds=('impl',), vis_alts=('pub',)),
                   fixed=[(r'\.sig\.const$', 'absent'), (r'\.sig\.unsafe$', 'absent'), (r'\.sig\.abi$', 'None'), (r'\.generics\.where$', 'None'), (r'\.generics\.params$', 'len=0'),
                          (r'inputs\[0\]\.pat$', 'deps'), (r'\.lt$', 'None'), (r'\.impl$', 'len=1'), (r'inputs\[0\]$', 'typed'), (r'items\[\d\]\.attrs$', 'len=0'),
                          (r'impl\.attrs$', 'len=0'), (r'inputs\[\d\]\.attrs$', 'len=0'), (r'\.sig\.output$', '()'), (r'\.sig\.async$', 'absent')]))
    sl.append(dict(name='impl/attrs-async', mode='impl', max_items=1,
                   bounds=dict(max_params=1, max_generics=0, max_where=0, max_deps_bounds=1, max_wrappers=1, max_fn_attrs=2 if big else 1, max_param_attrs=1 if big else 0, pat_depth=1 if big else 0,
                               deps_kinds=('&',), deps_inner_kinds=('impl', 'path:D') if big else ('impl',), vis_alts=('inherited', 'pub') if big else ('pub',), qualifiers=True),
                   fixed=[(r'\.sig\.const$', 'absent'), (r'\.sig\.abi$', 'None'), (r'\.generics\.where$', 'None'), (r'\.generics\.params$', 'len=0'),
                          (r'inputs\[0\]\.pat$', 'deps'), (r'\.lt$', 'None'), (r'\.impl$', 'len=1'), (r'inputs\[0\]$', 'typed'), (r'items\[\d\]\.attrs$', 'len=0')]))
    return sl


def trait_slices(tier):
    big = tier != 'quick'
    sl = []
    simple_m = [(r'\.fn\.generics\.params$', 'len=0'), (r'\.fn\.generics\.where$', 'None'), (r'\.fn\.attrs$', 'len=0'), (r'inputs\[\d\]\.attrs$', 'len=0')]
    simple_t = [(r'trait\.attrs$', 'len=0'), (r'trait\.generics\.params$', 'len=0'), (r'trait\.generics\.where$', 'None'), (r'trait\.colon$', 'None'),
                (r'trait\.supertraits$', 'len=0'), (r'trait\.vis$', 'pub')]
    # delegation selectors x async x method shapes (C06 C07 C12 C15)
    sl.append(dict(name='trait/delegation', mode='trait', max_items=2 if big else 1, assoc_items=False, opts_only=('future_send',),
                   bounds=dict(max_params=2 if big else 1, max_generics=0, max_where=0, max_deps_bounds=1, max_fn_attrs=1, max_param_attrs=0),
                   fixed=simple_m + [f for f in simple_t if f[0] != r'trait\.attrs$'] + [(r'\.default$', 'required'), (r'impl_trait\.vis$', 'inherited')]))
    # the trait definition itself (C09 C13 C18)
    sl.append(dict(name='trait/definition', mode='trait', max_items=2 if big else 1, delegation=('none', 'ref') if big else ('none',), impl_trait=('none',), opts_only=(),
                   bounds=dict(max_params=1 if big else 0, max_generics=1 if big else 0, max_where=1 if big else 0, max_deps_bounds=1, max_fn_attrs=1, max_param_attrs=0, qualifiers=True,
                               vis_alts=('inherited', 'pub', 'pub_crate') if big else ('inherited', 'pub')),
                   fixed=[(r'\.fn\.generics\.params$', 'len=0'), (r'\.fn\.generics\.where$', 'None'), (r'inputs\[\d\]\.attrs$', 'len=0'), (r'\.pat$', 'ident'),
                          (r'\.fn\.async$', 'absent'), (r'inputs\[0\]$', '&self')]))
    # visibility written before the delegation-target name x visibility of the trait (C13)
    sl.append(dict(name='trait/target-visibility', mode='trait', max_items=1, assoc_items=False, delegation=('ref', 'trait', 'borrow'), impl_trait=('some',), opts_only=(),
                   bounds=dict(max_params=0, max_generics=0, max_where=0, max_deps_bounds=1, max_fn_attrs=0, max_param_attrs=0,
                               vis_alts=('inherited', 'pub', 'pub_crate')),
                   fixed=simple_m + [f for f in simple_t if f[0] != r'trait\.vis$'] + [(r'\.default$', 'required'), (r'inputs\[0\]$', '&self'), (r'\.fn\.inputs$', 'len=1'),
                                                                                       (r'\.fn\.output$', '()'), (r'\.fn\.async$', 'absent')]))
    # the leaf trait of a concrete-dependency fn: `#[entrait(unimock = false, mockall = false)]` on a generated trait whose methods carry
    # the fn's lifetime parameters and borrowed returns (C05)
    sl.append(dict(name='trait/leaf', mode='trait', max_items=1, assoc_items=False, delegation=('none',), impl_trait=('none',), opts_only=('unimock', 'mockall'),
                   bounds=dict(max_params=1, max_generics=2, max_where=0, max_deps_bounds=1, max_fn_attrs=0, max_param_attrs=0),
                   fixed=simple_t + [(r'\.default$', 'required'), (r'\.pat$', 'ident'), (r'inputs\[\d\]\.attrs$', 'len=0'), (r'\.fn\.attrs$', 'len=0'),
                                     (r'\.fn\.generics\.where$', 'None'), (r'inputs\[0\]$', '&self')]))
    # provided (default-bodied) methods next to required ones: every method is forwarded, whatever the selector (C06)
    sl.append(dict(name='trait/defaults', mode='trait', max_items=2, assoc_items=False, delegation=('none', 'ref', 'borrow'), impl_trait=('none',), opts_only=(),
                   bounds=dict(max_params=1, max_generics=0, max_where=0, max_deps_bounds=1, max_fn_attrs=0, max_param_attrs=0),
                   fixed=simple_m + simple_t + [(r'\.pat$', 'ident'), (r'inputs\[0\]$', '&self'), (r'\.fn\.async$', 'absent'), (r'\.fn\.output$', '()')]))
    # two trait generics of different kinds in every legal order (`<const N: usize, X>`): parameters and arguments stay aligned (C06 C09 C07)
    sl.append(dict(name='trait/generics-2', mode='trait', max_items=1, assoc_items=False, delegation=('none', 'ref', 'trait'), opts_only=(),
                   bounds=dict(max_params=0, max_generics=2, max_where=0, max_deps_bounds=1, max_fn_attrs=0, max_param_attrs=0),
                   fixed=[(r'trait\.attrs$', 'len=0'), (r'trait\.vis$', 'pub'), (r'\.default$', 'required'), (r'inputs\[0\]$', '&self'),
                          (r'inputs\[\d\]\.attrs$', 'len=0'), (r'\.fn\.attrs$', 'len=0'), (r'impl_trait\.vis$', 'inherited'), (r'\.fn\.async$', 'absent'),
                          (r'\.fn\.output$', '()'), (r'\.fn\.generics\.where$', 'None'), (r'\.fn\.generics\.params$', 'len=0'), (r'trait\.generics\.where$', 'None'),
                          (r'trait\.colon$', 'None'), (r'trait\.supertraits$', 'len=0'), (r'\.bounds$', 'len=0')]))
    # attributes on the methods of a trait that also gets a delegation-target trait: mirrored on every copy of the method (C18)
    sl.append(dict(name='trait/method-attrs', mode='trait', max_items=1, assoc_items=False, delegation=('ref', 'trait', 'borrow'), impl_trait=('some',), opts_only=(),
                   bounds=dict(max_params=0, max_generics=0, max_where=0, max_deps_bounds=1, max_fn_attrs=1, max_param_attrs=0),
                   fixed=[(r'\.fn\.generics\.params$', 'len=0'), (r'\.fn\.generics\.where$', 'None'), (r'inputs\[\d\]\.attrs$', 'len=0')] + simple_t +
                         [(r'\.default$', 'required'), (r'inputs\[0\]$', '&self'), (r'\.fn\.inputs$', 'len=1'), (r'\.fn\.output$', '()'), (r'\.fn\.async$', 'absent'),
                          (r'impl_trait\.vis$', 'inherited')]))
    # options on traits (C10 C11)
    sl.append(dict(name='trait/opts', mode='trait', max_items=1, meta=True, assoc_items=False, delegation=('none', 'ref', 'trait'),
                   bounds=dict(max_params=1, max_generics=0, max_where=0, max_deps_bounds=1, max_fn_attrs=0, max_param_attrs=0),
                   fixed=simple_m + simple_t + [(r'\.default$', 'required'), (r'\.pat$', 'ident'), (r'inputs\[0\]$', '&self'), (r'\.fn\.inputs$', 'len=2'),
                                                 (r'impl_trait\.vis$', 'inherited'), (r'\.fn\.output$', '()')]))
    for v in ('entrait_export_unimock',):
        sl.append(dict(name=f'trait/opts/{v}', variant=v, mode='trait', max_items=1, meta=True, assoc_items=False, delegation=('none',), impl_trait=('none',),
                       bounds=dict(max_params=0, max_generics=0, max_where=0, max_deps_bounds=1, max_fn_attrs=0, max_param_attrs=0),
                       fixed=simple_m + simple_t + [(r'\.default$', 'required'), (r'inputs\[0\]$', '&self'), (r'\.fn\.inputs$', 'len=1'), (r'\.fn\.output$', '()')]))
    # generic traits, supertraits, method generics (C06 C09)
    sl.append(dict(name='trait/generics', mode='trait', max_items=1, assoc_items=False, delegation=('none', 'ref', 'trait'), opts_only=(),
                   bounds=dict(max_params=1, max_generics=2 if big else 1, max_where=1, max_deps_bounds=1, max_fn_attrs=0, max_param_attrs=0),
                   fixed=[(r'trait\.attrs$', 'len=0'), (r'trait\.vis$', 'pub'), (r'\.default$', 'required'), (r'\.pat$', 'ident'), (r'inputs\[0\]$', '&self'),
                          (r'inputs\[\d\]\.attrs$', 'len=0'), (r'\.fn\.attrs$', 'len=0'), (r'impl_trait\.vis$', 'inherited'), (r'\.fn\.async$', 'absent'),
                          (r'\.fn\.output$', '()'), (r'\.fn\.generics\.where$', 'None')]))
    return sl


def front_slices(tier):
    big = tier != 'quick'
    sl = []
    for target in ('fn', 'mod', 'trait', 'impl'):
        # flat token alphabet (22 tokens): every list up to 4 (quick) / 5 (thorough) tokens, explored to completion in parallel parts;
        # longer lists are covered as whole option items by front/attr-items
        sl.append(dict(name=f'front/attr/{target}', mode='front', target=target, max_tokens=5 if big else 4, validate=8))
    # attribute lists of whole option items (3 items: two-option interactions and every order)
    for target in ('fn', 'mod'):
        sl.append(dict(name=f'front/attr-items/{target}', mode='front', target=target, items=3, reduced=not big, validate=8))
    sl.append(dict(name='front/attr-items/trait', mode='front', target='trait', items=3, head=False, reduced=not big, validate=8))
    sl.append(dict(name='front/attr-items/trait-with-target', mode='front', target='trait', items=3, head=True, reduced=not big, validate=8))
    # module / impl bodies made of legal items: one item with every dimension between fixed neighbours, two items with reduced dimensions
    sl.append(dict(name='front/item/mod-1', mode='front-item', what='mod', layout=['FN', 'a', 'STRUCT'], validate=10))
    sl.append(dict(name='front/item/mod-2', mode='front-item', what='mod', layout=['ra', 'rb', 'rc'] if big else ['ra', 'rb'], validate=10))
    sl.append(dict(name='front/item/impl-1', mode='front-item', what='impl', layout=['a'], validate=6))
    sl.append(dict(name='front/item/impl-2', mode='front-item', what='impl', layout=['ra', 'rb', 'rc'] if big else ['ra', 'rb'], validate=6))
    sl.append(dict(name='front/item/fn', mode='front-item', what='fn', layout=['sa'], validate=8))
    sl.append(dict(name='front/item/trait', mode='front-item', what='trait', layout=['ta'], validate=6))
    if big:
        # arbitrary token lists (lazily chosen structured tokens, texts as solver strings); legality decided by the reference grammar
        sl.append(dict(name='front/item/mod-tokens', mode='front-item', what='mod', max_tokens=6, validate=10, time_budget=1500))
        sl.append(dict(name='front/item/fn-tokens', mode='front-item', what='fn', max_tokens=7, validate=8, time_budget=1500))
    return sl


OTHER_FOR = {
    'C01': ['mod/items', 'impl/patterns'],
    'C02': ['mod/items', 'mod/visibility', 'impl/items', 'impl/attrs-async', 'front/item/'],
    'C03': ['mod/items', 'impl/items'],
    'C04': ['mod/items', 'impl/items', 'mod/attrs-async-opts', 'mod/bound-shapes'],
    'C05': ['trait/leaf'],
    'C06': ['trait/delegation', 'trait/generics', 'trait/opts', 'trait/leaf', 'trait/defaults', 'trait/generics-2'],
    'C07': ['impl/items', 'impl/attrs-async', 'impl/patterns', 'trait/delegation', 'trait/generics', 'trait/generics-2'],
    'C08': ['mod/items', 'mod/visibility', 'impl/items', 'front/item/mod-1', 'front/item/mod-2', 'front/item/impl-1', 'front/item/impl-2', 'front/item/mod-tokens'],
    'C09': ['trait/definition', 'trait/generics', 'trait/generics-2', 'trait/delegation', 'trait/opts', 'front/item/trait'],
    'C10': ['mod/attrs-async-opts', 'trait/opts'],
    'C11': ['mod/attrs-async-opts', 'trait/opts'],
    'C12': ['mod/attrs-async-opts', 'impl/attrs-async', 'trait/delegation', 'trait/leaf'],
    'C13': ['mod/visibility', 'mod/items', 'trait/delegation', 'trait/definition', 'trait/target-visibility', 'front/item/trait'],
    'C14': ['mod/attrs-async-opts', 'impl/items', 'trait/delegation', 'trait/leaf'],
    'C17': ['front/attr/', 'front/attr-items/', 'trait/opts', 'mod/meta/'],
    'C15': ['front/attr/', 'front/attr-items/', 'front/item/mod-1', 'mod/items', 'impl/items', 'impl/attrs-async', 'impl/patterns', 'mod/attrs-async-opts', 'trait/delegation', 'trait/definition', 'trait/opts'],
    'C16': ['impl/attrs-async', 'impl/patterns'],
    'C18': ['mod/attrs-async-opts', 'impl/attrs-async', 'impl/items', 'trait/definition', 'trait/delegation', 'trait/method-attrs'],
    'C19': ['mod/attrs-async-opts', 'impl/items', 'impl/attrs-async', 'trait/delegation', 'trait/opts', 'trait/generics'],
    'C20': ['mod/items', 'impl/items', 'trait/delegation'],
}


# heavy slices are split along one always-decided dimension into parts that are explored in parallel: part k of n owns the
# alternatives with index = k (mod n) of every node whose key matches; the union of the parts is the unsplit slice
SPLIT = {
    'quick': {
        'fn/deps-decl': (r'^fn\.sig\.generics\.params$', 2),
        'fn/deps-decl-2generics': (r'^fn\.sig\.generics\.params$', 2),
        'fn/lifetime-bounds': (r'^fn\.sig\.generics\.params$', 2),
        'mod/attrs-async-opts': (r'^attr\.opts\.(unimock|mockall)$', 2),
        'trait/definition': (r'^trait\.(vis|unsafe)$', 2),
        'trait/generics': (r'^trait\.generics\.params$', 2),
        'front/item/mod-1': (r'^seg:it\.a\.(abi|term)$', 3),
        'front/item/impl-1': (r'^seg:it\.a\.(abi|term)$', 3),
        'front/item/fn': (r'^seg:it\.sa\.(abi|term)$', 3),
        'impl/attrs-async': [(r'^attr\.kind$', 2), (r'^impl\.unsafe$', 2)],
        'impl/patterns': (r'^attr\.kind$', 2),
        'trait/delegation': (r'^attr\.opts\.future_send$', 2),
        'front/attr/trait': (r'^a\[0\]$', 3),
        'front/attr/impl': (r'^a\[0\]$', 3),
    },
    'thorough': {
        'front/attr/fn': (r'^a\[(1|2)\]$', 4),
        'front/attr/mod': (r'^a\[(1|2)\]$', 4),
        'front/attr/trait': (r'^a\[(0|1)\]$', 4),
        'front/attr/impl': (r'^a\[(0|1)\]$', 4),
        'fn/deps-decl': (r'^fn\.sig\.generics\.(params|where)$', 2),
        'fn/deps-decl-2generics': (r'^fn\.sig\.generics\.params$', 4),
        'mod/attrs-async-opts': (r'^attr\.opts\.(unimock|mockall|export)$', 2),
        'mod/items': (r'^mod\.items$', 4),
        'trait/definition': (r'^trait\.(vis|unsafe|attrs)$', 2),
        'trait/generics': (r'^trait\.generics\.params$', 4),
        'trait/delegation': (r'^attr\.(delegate_by|impl_trait)$', 2),
        'impl/items': (r'^impl\.items$', 4),
        'front/item/mod-1': (r'^seg:it\.a\.(abi|term)$', 3),
        'front/item/impl-1': (r'^seg:it\.a\.(abi|term)$', 3),
        'front/item/fn': (r'^seg:it\.sa\.(abi|term)$', 3),
    },
}


def all_slices(tier):
    out = []
    for sl in fn_slices(tier) + mod_slices(tier) + impl_slices(tier) + trait_slices(tier) + front_slices(tier):
        sp = SPLIT.get('quick' if tier == 'quick' else 'thorough', {}).get(sl['name'])
        if not sp:
            out.append(sl)
            continue
        if isinstance(sp, list):
            # explicit product of single-key splits: [(regex, n), ..]
            combos = [[]]
            for rx_, n_ in sp:
                combos = [c + [(rx_, k, n_)] for c in combos for k in range(n_)]
            for c in combos:
                assert all('|' not in r_ for r_, _, _ in c)
                part = dict(sl)
                part['name'] = sl['name'] + '#' + '.'.join(str(k) for _, k, _ in c)
                part['restrict'] = c
                out.append(part)
            continue
        rx, n = sp
        import re as _re
        # a regex that names two keys (a|b) splits along both: n*n parts
        keys = _re.findall(r'\((\w+(?:\|\w+)+)\)', rx)
        if keys:
            alts = keys[0].split('|')
            base = rx.replace('(' + keys[0] + ')', '{}')
            combos = [[]]
            for a_ in alts:
                combos = [c + [(base.format(a_), k, n)] for c in combos for k in range(n)]
        else:
            combos = [[(rx, k, n)] for k in range(n)]
        for c in combos:
            assert all('|' not in r_ for r_, _, _ in c), 'a split regex must name exactly one key (or use the (a|b) product form)'
            part = dict(sl)
            part['name'] = sl['name'] + '#' + '.'.join(str(k) for _, k, _ in c)
            part['restrict'] = c
            out.append(part)
    return out
