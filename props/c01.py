from xeng import progs, progs2, progs3
from . import _common


def run(out):
    _common.run(out, 'C01', x=[dict(fn=progs.c01_corpus, name='c01')], s_props=['C01'])
