"""C01 - calling a generated trait method is calling the original function."""
from xeng import progs, driver
from . import _x


def run(out):
    out.level = 'model_checking'
    corpus = progs.c01_corpus(out.tier, out.seed)
    st = driver.run_corpus(out, corpus, f'x_c01_{out.tier}')
    _x.merge_x(out, st, corpus)
