"""C01 - calling a generated trait method is calling the original function."""
from xeng import progs
from . import _common


def run(out):
    _common.run(out, 'C01', x_corpora=[(progs.c01_corpus, 'c01')], s_props=['C01'])
