from xeng import progs, progs2, progs3
from . import _common


def run(out):
    _common.run(out, 'C05', x=[dict(fn=progs2.c05_corpus, name='c05', compile_violation=True)], s_props=['C05'])
