from xeng import progs2, driver
from . import _x


def run(out):
    out.level = 'model_checking'
    corpus = progs2.c05_corpus(out.tier, out.seed)
    st = driver.run_corpus(out, corpus, f'x_c05_{out.tier}')
    _x.merge_x(out, st, corpus)
