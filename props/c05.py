from xeng import progs2
from . import _common


def run(out):
    _common.run(out, 'C05', x_corpora=[(progs2.c05_corpus, 'c05')], s_props=['C05'])
