"""C20 - expansion is a pure function of (attribute, item)."""
import json, os
from . import _s, sprops
from smir import replay
from vlib import core


def run(out):
    out.level = 'other'
    sl = sprops.slices_for('C20', out.tier)
    for s in sl:
        s['validate'] = 10
    results = _s.run_s(out, sl, ['C20'])
    impure = []
    cases = []
    for r in results:
        impure += r.get('impure', [])
        cases += [v for v in r.get('validate', []) if v and 'error' not in v]
        cases += [dict(v, pred=None, kind='ok') for v in r.get('impure_cases', [])]
    # a mocked, non-exported item after an exporting invocation: state leaking between invocations shows up here
    cases.append(dict(macro='entrait_export', attr_src='pub ExpFirst, mockall', item_src='fn exp_first ( deps : & impl B0 ) { }', item_flat=[], pred=None, kind='ok'))
    cases.append(dict(macro='entrait', attr_src='pub Plain, mockall', item_src='fn plain < A , B , C , E > ( deps : & impl B0 , a : A , b : B , c : C , e : E ) { }', item_flat=[], pred=None, kind='ok'))
    cases.append(dict(macro='entrait', attr_src='pub Plain2, mock_api = M, unimock', item_src='fn plain2 ( deps : & impl B0 ) { }', item_flat=[], pred=None, kind='ok'))
    cases.append(dict(macro='entrait', attr_src='pub Sc', item_src='fn scale ( deps : & impl B0 , ( a , b ) : ( u32 , u32 ) , scale : u32 , _ : u8 ) { }', item_flat=[], pred=None, kind='ok'))
    cases.append(dict(macro='entrait', attr_src='pub Bo', item_src='mod bo { pub fn f1 ( deps : & ( impl B0 + B1 ) ) { } pub fn f2 ( deps : & ( impl B2 + B3 + B0 ) ) { } pub fn f3 < D : B4 + B1 > ( deps : & D ) { } }', item_flat=[], pred=None, kind='ok'))
    cases.append(dict(macro='entrait', attr_src='TrI, delegate_by = ref', item_src='trait Tr2 < X , Y , Z > { fn m1 ( & self , x : X , y : Y , z : Z ) ; fn m2 ( & self ) ; }', item_flat=[], pred=None, kind='ok'))
    nkeys, nexp, diffs = replay.determinism_check(cases, 's_determinism_C20')
    c = out.coverage
    c['determinism_replay'] = dict(distinct_invocations=nkeys, real_expansions_compared=nexp, differing=len(diffs),
                                   how='each invocation expanded twice in one rustc process, again in a fresh process, and in reversed order in a third')
    c['impure_primitives_reached'] = sorted(set(impure))[:10]
    for d in diffs[:3]:
        rdir = os.path.join(core.WORK, 'replay', f'S_C20_nondeterministic_{abs(hash(d["input"])) % 10000}')
        os.makedirs(rdir, exist_ok=True)
        json.dump(dict(kind='determinism', **d), open(os.path.join(rdir, 'replay.json'), 'w'), indent=1)
        out.violation('C20:same-invocation-different-expansion' + ('/impure:' + _s.slug(sorted(set(impure))[0], 40) if impure else ''),
                      f'the same (attribute, item) expanded to {d["n_distinct_outputs"]} different token streams across processes / invocation orders: '
                      f'#[{d["attr"]}] {d["input"][:200]} | A: {d["first"][:200]} | B: {d["second"][:200]}', rdir, 'S/replay')
    if impure and not diffs:
        out.inconc('engine S: an impure primitive is reachable (' + '; '.join(sorted(set(impure))[:3]) + ') but no differing expansion could be produced by the determinism replay')
    c['explanation'] = (c.get('explanation', '') + ' C20: within the bounds no feasible path of the macro reaches an impure primitive (statics, thread-locals, env, '
                        'clock, fs, randomness, hash-order iteration) and no unmodelled callee is assumed pure; HashSet is used through collect/contains/insert only.')
