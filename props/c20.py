from . import _common


def run(out):
    _common.run(out, 'C20', s_props=['C20'])
