"""which Engine-S slices serve which property"""
from . import slices as SL

FN_FOR = {
    'C01': ['fn/deps-decl', 'fn/patterns', 'fn/patterns-2params', 'fn/attrs-async', 'fn/qualifiers', 'fn/fname-param'],
    'C02': ['fn/visibility', 'fn/qualifiers', 'fn/attrs-async', 'fn/patterns'],
    'C03': ['fn/deps-decl', 'fn/deps-decl-2generics', 'fn/qualifiers', 'fn/attrs-async', 'fn/lifetime-bounds'],
    'C04': ['fn/deps-decl', 'fn/deps-decl-2generics', 'fn/opts/'],
    'C05': ['fn/deps-decl', 'fn/opts-concrete/'],
    'C08': ['fn/qualifiers'],
    'C10': ['fn/opts/', 'fn/opts-concrete/'],
    'C11': ['fn/opts/', 'fn/unmock', 'fn/unmock-fname'],
    'C12': ['fn/attrs-async', 'fn/async-deps'],
    'C13': ['fn/visibility', 'front/attr/fn'],
    'C14': ['fn/attrs-async', 'fn/deps-decl', 'fn/async-deps'],
    'C15': ['fn/deps-decl', 'fn/patterns', 'fn/attrs-async', 'fn/qualifiers', 'fn/symbolic-names'],
    'C17': ['fn/opts/'],
    'C16': ['fn/patterns', 'fn/patterns-2params', 'fn/symbolic-names', 'fn/symbolic-names-3', 'fn/fname-param'],
    'C18': ['fn/attrs-async', 'fn/patterns'],
    'C19': ['fn/opts/entrait', 'fn/attrs-async', 'fn/deps-decl'],
    'C20': ['fn/deps-decl-2generics', 'fn/patterns', 'fn/attrs-async', 'fn/opts/entrait', 'fn/opts/entrait_export', 'fn/symbolic-names'],
}


def slices_for(prop, tier):
    alls = SL.all_slices(tier)
    want = FN_FOR.get(prop, []) + SL.OTHER_FOR.get(prop, [])
    out = []
    for sl in alls:
        base = sl['name'].split('#')[0]
        if any(base == w or (w.endswith('/') and base.startswith(w)) for w in want):
            out.append(dict(sl))
    return out
