from xeng import progs, progs2, progs3
from . import _common


def run(out):
    _common.run(out, 'C19', x=[dict(fn=progs3.c19_corpus, name='c19', compile_violation=True)], s_props=['C19'])
