from . import _common


def run(out):
    _common.run(out, 'C19', s_props=['C19'])
