from . import _common


def run(out):
    _common.run(out, 'C17', s_props=['C17'])
