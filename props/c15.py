from xeng import progs, progs2, progs3
from . import _common


def run(out):
    _common.run(out, 'C15', x=[], s_props=['C15'])
