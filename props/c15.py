from . import _common


def run(out):
    _common.run(out, 'C15', s_props=['C15'])
