"""helpers shared by the property modules for their Engine-S part"""
import json, os, re, time
from smir import setup as ssetup, runner, replay
from vlib import core

S_ASSUMPTIONS = [
    'entrait_macros is represented only by the MIR the nightly compiler dumps from /repo\'s current source on this run',
    'environment models of proc-macro2 / quote / syn data + parse_quote templates / std (listed under coverage.stubs) behave as documented; '
    'checked on this run by comparing predicted with recorded real expansions on sampled paths (traces_validated_against_impl)',
    'input programs beyond the stated AST bounds (coverage.bounds per slice) are not covered',
    'identifier spellings: ASCII, length <= 8 where symbolic',
]


def slug(s, n=70):
    return re.sub(r'[^a-zA-Z0-9=+._-]+', '-', s).strip('-')[:n]


def run_s(out, slices, props, max_paths=None, time_budget=None, procs=16):
    tier = out.tier
    max_paths = max_paths or (30000 if tier == 'quick' else 400000)
    time_budget = time_budget or (120 if tier == 'quick' else 700)
    t0 = time.time()
    mir_text, dt = ssetup.dump_mir(core.REPO)
    os.makedirs(core.WORK, exist_ok=True)
    mir_path = os.path.join(core.WORK, f'mir_{out.prop}_{os.getpid()}.txt')
    open(mir_path, 'w').write(mir_text)
    for i, sl in enumerate(slices):
        sl.setdefault('seed', out.seed * 1000 + i)
    results = runner.run_slices(mir_path, core.REPO, slices, set(props), max_paths, time_budget, procs)
    os.remove(mir_path)
    c = out.coverage
    c.setdefault('engines', [])
    tag = 'S: symbolic execution of entrait_macros\' MIR (lazy-initialised symbolic input AST), z3 decides path conditions and obligations'
    if tag not in c['engines']:
        c['engines'].append(tag)
    tot = dict(paths=0, obligations=0, queries=0, solver_time=0.0, steps=0)
    bodies, models = set(), set()
    fail_cases = []   # (role, prop, detail, case, slice)
    val_cases = []
    s_slices = []
    for r in results:
        if r['error']:
            out.inconc(f'engine S slice {r["name"]}: {r["error"][:400]}')
            continue
        tot['paths'] += r['paths']
        tot['obligations'] += r['obligations']
        tot['queries'] += r['queries'] + r['path_queries']
        tot['solver_time'] += r['solver_time']
        tot['steps'] += r['steps']
        bodies |= set(r['bodies'])
        models |= set(r['models'])
        if r['truncated']:
            out.notes.append(f'slice {r["name"]} truncated at {r["paths"]} paths')
        for k, v in r['unsupported'].items():
            out.inconc(f'engine S slice {r["name"]}: {v} path(s) UNSUPPORTED: {k[:300]}')
        for role, f in r['failures'].items():
            fail_cases.append((role, f['prop'], f['detail'], f['case'], r['name'], f['count']))
        if 'C15' in props:
            for k, v in r['panics'].items():
                fail_cases.append(('C15:macro-panics/' + slug(k, 50), 'C15', f'the macro panics: {k} at {v["where"]}', v['case'], r['name'], v['count']))
        elif r['panics']:
            out.notes.append(f'slice {r["name"]}: {sum(v["count"] for v in r["panics"].values())} path(s) end in a panic (judged by C15)')
        if 'C20' in props and r['impure']:
            out.notes.append(f'impure primitives: {r["impure"][:3]}')
        val_cases += [v for v in r['validate'] if v and 'error' not in v and v.get('kind') == 'ok']
        s_slices.append(dict(name=r['name'], mode=r['mode'], bounds=r['bounds'], paths=r['paths'], kinds=r['kinds'], obligations=r['obligations'],
                             solver_queries=r['queries'] + r['path_queries'], wall_s=round(r['wall'], 1), truncated=r['truncated'],
                             rejections=r['errs'], samples=r['samples'][:2]))
    # ---- replay failures against the real macro -------------------------------------------------------------
    seen = {}
    for fc in fail_cases:
        seen.setdefault(fc[0], fc)
    uniq = list(seen.values())
    n_validated = 0
    if uniq or val_cases:
        cases = [u[3] for u in uniq] + val_cases
        statuses, info = runner.replay_cases(cases, f's_replay_{out.prop}')
        for u, (st, inf) in zip(uniq, statuses[:len(uniq)]):
            role, prop, detail, case, sname, count = u
            if prop != out.prop:
                continue
            if st in ('reproduced', 'panic-reproduced'):
                rdir = os.path.join(core.WORK, 'replay', f'S_{out.prop}_{slug(role, 60)}')
                replay.write_replay_dir(rdir, case, dict(role=role, detail=detail, slice=sname, paths_failing=count))
                out.violation(role, f'{detail[:500]} | input: #[{case["macro"]}({case["attr_src"]})] {case["item_src"][:300]} | {inf}', rdir, 'S/z3')
            else:
                out.inconc(f'engine S: counterexample for {role} did not reproduce on the real macro ({st}: {str(inf)[:600]}); encoding problem')
        bad = 0
        for cse, (st, inf) in zip(val_cases, statuses[len(uniq):]):
            if st == 'reproduced':
                n_validated += 1
            elif st == 'unparsable':
                c['validation_cases_rustc_would_not_parse'] = c.get('validation_cases_rustc_would_not_parse', 0) + 1
            else:
                bad += 1
                if bad <= 3:
                    out.inconc(f'engine S: translator validation mismatch ({st}) for #[{cse["macro"]}({cse["attr_src"]})] {cse["item_src"][:200]} : {str(inf)[:700]}')
    c['s_paths'] = c.get('s_paths', 0) + tot['paths']
    c['obligations'] = c.get('obligations', 0) + tot['obligations']
    c['discharged'] = c.get('discharged', 0) + tot['obligations'] - sum(f[5] for f in fail_cases if f[1] == out.prop)
    c['queries_discharged'] = c.get('queries_discharged', 0) + tot['queries']
    c['solver_time_s'] = round(c.get('solver_time_s', 0) + tot['solver_time'], 2)
    c['s_mir_statements_executed'] = c.get('s_mir_statements_executed', 0) + tot['steps']
    c['traces_validated_against_impl'] = c.get('traces_validated_against_impl', 0) + n_validated
    c['functions_encoded'] = sorted(set(c.get('functions_encoded', [])) | {b.split('::')[-1] if 'closure' not in b else b[-50:] for b in bodies})[:400]
    c['stubs'] = sorted(set(c.get('stubs', [])) | models)
    c.setdefault('s_slices', [])
    c['s_slices'] += s_slices
    c['s_mir_dump_s'] = round(dt, 1)
    c['evaluations'] = c.get('evaluations', 0) + tot['paths']
    c['distinct_nontrivial'] = c.get('distinct_nontrivial', 0) + tot['paths']
    c['rule'] = ('every feasible path of the macro (and of the reference spec) over the lazily initialised symbolic input within the slice bounds; '
                 'paths are distinct by construction (distinct choice sequences)')
    c.setdefault('samples', [])
    for sl in s_slices[:3]:
        for smp in sl['samples'][:1]:
            c['samples'].append(dict(engine='S', slice=sl['name'], **smp))
    c['explanation'] = (c.get('explanation', '') + ' S: path-complete symbolic execution of the macro\'s MIR within the stated AST bounds; every obligation '
                        'of the reference spec is discharged by z3 against the path condition; counterexamples are replayed on the real proc-macro.').strip()
    for a in S_ASSUMPTIONS:
        if a not in out.assumptions:
            out.assumptions.append(a)
    return results
