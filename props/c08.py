from xeng import progs, progs2, progs3
from . import _common


def run(out):
    _common.run(out, 'C08', x=[dict(fn=progs3.c08_corpus, name='c08', compile_violation=True)], s_props=['C08'])
