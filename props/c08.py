from . import _common


def run(out):
    _common.run(out, 'C08', s_props=['C08'])
