"""helpers shared by the property modules for their Engine-X part"""
from xeng import driver

X_ASSUMPTIONS = [
    'Kani 0.68 / CBMC 6.11 model of Rust semantics (dev profile, sequential)',
    'rustc expands the corpus with the proc-macro built from /repo as it is now',
    'programs outside the generated corpus are not covered; within a program every argument value and application state is symbolic (full bit width)',
]


def x_cov(st, corpus, bounds=None):
    return dict(
        x_programs=st['programs'], x_harnesses=st['harnesses'], x_harnesses_successful=st['successful'],
        x_cbmc_properties_checked=st['checks'], x_solver_time_s=st['solver_time_s'], x_kani_wall_s=st['kani_wall_s'],
        x_compile_failed=st['compile_failed'], x_failed_harnesses=st.get('failed_harnesses', []),
        x_controls_failed_as_expected=st.get('controls_failed_as_expected', 0),
        x_build=st['build'], x_cfg_test=st['cfg_test'],
        x_bounds=bounds or 'unwind 4 (block_on loop), trace log of 4 events, <= 4 arguments of <= 32-bit types per function; all values of those types',
        x_samples=[dict(program=p.pid, desc=p.desc, harnesses=p.harnesses[:4]) for p in corpus[:5]],
    )


def merge_x(out, st, corpus, bounds=None):
    """fold one corpus run into out.coverage (model_checking keys accumulate)"""
    c = out.coverage
    c.setdefault('engines', [])
    tag = ('X (compile only): rustc type-checks the real expansions of the corpus; a program that stops compiling is reported'
           if st.get('compile_only') else 'X: Kani/CBMC over the real expansions (solver decides all argument values)')
    if tag not in c['engines']:
        c['engines'].append(tag)
    c['states'] = c.get('states', 0) + st['checks']
    c['transitions'] = c.get('transitions', 0) + st['harnesses']
    c['traces_validated_against_impl'] = c.get('traces_validated_against_impl', 0) + st['harnesses']
    c['programs'] = c.get('programs', 0) + st['programs']
    c['queries_discharged'] = c.get('queries_discharged', 0) + st['checks']
    c['solver_time_s'] = round(c.get('solver_time_s', 0) + st['solver_time_s'], 2)
    c.setdefault('x_runs', []).append(x_cov(st, corpus, bounds))
    c.setdefault('samples', [])
    c['samples'] += [dict(engine='X', program=p.pid, desc=p.desc, harnesses=p.harnesses[:4]) for p in corpus[:4]]
    c['explanation'] = ('states = CBMC properties checked over all harnesses, transitions = harnesses; each harness is decided by the '
                        'SAT solver for all argument values; traces_validated = harnesses whose end is reachable (cover) on the real expansion')
    for a in X_ASSUMPTIONS:
        if a not in out.assumptions:
            out.assumptions.append(a)
