from xeng import progs2
from . import _common


def run(out):
    _common.run(out, 'C06', x_corpora=[(progs2.c06_corpus, 'c06')], s_props=['C06'])
