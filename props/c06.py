from xeng import progs, progs2, progs3
from . import _common


def run(out):
    _common.run(out, 'C06', x=[dict(fn=progs2.c06_corpus, name='c06')], s_props=['C06'])
