from xeng import progs, progs2, progs3
from . import _common


def run(out):
    # the unimock derivation is `cfg_attr(test, ..)` unless exported: type-check the corpus as a cfg(test) build
    _common.run(out, 'C11', x=[dict(fn=progs3.c11_corpus, name='c11t', unimock=True, tests=True, compile_violation=True, compile_only=True)], s_props=['C11'])
