from . import _common


def run(out):
    _common.run(out, 'C11', s_props=['C11'])
