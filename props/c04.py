from . import _common


def run(out):
    _common.run(out, 'C04', s_props=['C04'])
