from xeng import progs, progs2, progs3
from . import _common


def run(out):
    _common.run(out, 'C04', x=[dict(fn=progs3.c04_corpus, name='c04')], s_props=['C04'])
