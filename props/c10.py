from xeng import progs, progs2, progs3
from . import _common


def run(out):
    _common.run(out, 'C10', x=[dict(fn=progs3.c10_corpus, name='c10', unimock=True), dict(fn=progs3.c10_corpus, name='c10t', unimock=True, tests=True)], s_props=['C10'])
