from . import _common


def run(out):
    _common.run(out, 'C10', s_props=['C10'])
