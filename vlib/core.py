"""Shared plumbing: outcomes, known-findings file, evidence writer, exit codes.

exit 0  property held on everything explored (KNOWN-FINDING lines allowed)
exit 1  reproduced violation that the known-findings file does not list (VIOLATION line)
exit 2  could not decide (unsupported path, solver timeout, non-reproducing model, broken build)
"""

import json, os, re, sys, time

VERIF = os.path.dirname(os.path.dirname(os.path.abspath(__file__)))
REPO = os.environ.get('VERIF_REPO', '/repo')
KNOWN = os.path.join(VERIF, 'known_findings.txt')
EVID = os.environ.get('VERIF_EVIDENCE') or os.path.join(VERIF, 'evidence')
WORK = os.environ.get('VERIF_WORK') or os.path.join(VERIF, 'work')
CACHE = os.environ.get('VERIF_CACHE') or os.path.join(VERIF, '.cache')


class Violation:
    def __init__(self, prop, role, what, replay, engine):
        self.prop = prop
        self.role = role          # stable key identifying the *kind* of failing input
        self.what = what          # human readable
        self.replay = replay      # path
        self.engine = engine


class Outcome:
    def __init__(self, prop, tier, seed):
        self.prop = prop
        self.tier = tier
        self.seed = seed
        self.violations = []      # reproduced against the real code
        self.inconclusive = []    # strings
        self.coverage = {}
        self.assumptions = []
        self.level = 'other'
        self.t0 = time.time()
        self.notes = []

    def violation(self, role, what, replay, engine):
        self.violations.append(Violation(self.prop, role, what, replay, engine))

    def inconc(self, msg):
        self.inconclusive.append(msg)


def load_known():
    """-> (findings {(prop, role): text}, fixed [(prop, commit, text)])"""
    findings, fixed = {}, []
    if not os.path.exists(KNOWN):
        return findings, fixed
    for line in open(KNOWN):
        line = line.strip()
        if not line or line.startswith('#'):
            continue
        m = re.match(r'^finding: property=(C\d+) role=(\S+) (.*)$', line)
        if m:
            findings[(m.group(1), m.group(2))] = m.group(3)
            continue
        m = re.match(r'^fixed: property=(C\d+) (\S+) (.*)$', line)
        if m:
            fixed.append((m.group(1), m.group(2), m.group(3)))
    return findings, fixed


def finish(out: Outcome):
    """print verdict lines, write evidence, return exit code"""
    findings, _fixed = load_known()
    new, known = [], []
    seen_roles = set()
    for v in out.violations:
        if (v.prop, v.role) in findings:
            if v.role not in seen_roles:
                known.append(v)
        else:
            new.append(v)
        seen_roles.add(v.role)
    for v in known:
        print(f'KNOWN-FINDING: property={v.prop} role={v.role} {v.what} replay={v.replay}')
    printed = set()
    for v in new:
        if v.role in printed:
            continue
        printed.add(v.role)
        print(f'VIOLATION property={v.prop} replay={v.replay}')
        print(f'  role={v.role} engine={v.engine}: {v.what}')
    for m in out.inconclusive:
        print(f'INCONCLUSIVE: property={out.prop} {m}')
    wall = time.time() - out.t0
    cov = dict(out.coverage)
    cov.setdefault('known_findings_reported', [v.role for v in known])
    cov.setdefault('inconclusive', out.inconclusive[:20])
    ev = dict(property_id=out.prop, tier=out.tier, seed=out.seed, level=out.level, coverage=cov,
              assumptions=out.assumptions, wall_s=round(wall, 2), violations=len(printed))
    os.makedirs(EVID, exist_ok=True)
    with open(os.path.join(EVID, f'{out.prop}.json'), 'w') as f:
        json.dump(ev, f, indent=1, default=str)
    if new:
        code = 1
    elif out.inconclusive:
        code = 2
    else:
        code = 0
    print(f'{out.prop} tier={out.tier} seed={out.seed}: exit {code} '
          f'({len(printed)} new violation role(s), {len(known)} known finding(s), {len(out.inconclusive)} inconclusive) '
          f'wall {wall:.1f}s')
    return code
