"""setup: warm the build caches (offline) so that the first check does not pay for dependency builds"""
import os, sys, time
from xeng import run, progs
from smir import setup as ssetup, replay


def main():
    t0 = time.time()
    os.makedirs(run.WORK, exist_ok=True)
    os.makedirs(run.CACHE, exist_ok=True)
    # Engine S: nightly MIR dump (dependencies of entrait_macros get compiled into .cache/mir-target)
    try:
        txt, dt = ssetup.dump_mir(run.REPO)
        print(f'MIR dump ok: {txt.count(chr(10))} lines in {dt:.1f}s')
    except Exception as e:
        print('MIR dump failed:', e)
        return 1
    # recorder client (hook on)
    recs, log, dt = replay.expand_batch([dict(macro='entrait', attr_src='Warm', item_src='fn warm<D>(deps: &D) {}')], 's_warm')
    print(f'recorder client ok: {len(recs)} record(s) in {dt:.1f}s')
    if not recs:
        print(log[-2000:])
        return 1
    # Engine X: Kani builds (default features, unimock feature, cfg(test)) and the native replay target
    f = progs.FnSpec('f1', 'gen', [progs.P('u32')])
    p = progs.single_fn_program('warm_000', f)
    for um, tests in ((False, False), (True, False), (True, True)):
        sfx = ('-um' if um else '') + ('-t' if tests else '')
        d = run.write_crate('x_warm' + sfx, [p], um)
        rc, bad, other = run.cargo_check_failing_programs(d, os.path.join(run.CACHE, 'x-check-target' + sfx), [p], tests)
        rc2, out, dt = run.run_kani(d, os.path.join(run.CACHE, 'x-kani-target' + sfx), tests=tests, jobs=1)
        res, summ = run.parse_kani(out)
        print(f'kani warm{sfx}: check rc={rc} kani rc={rc2} {summ} in {dt:.1f}s')
        if rc != 0 or not summ or summ[1] != 0:
            print(out[-2000:])
            return 1
    print(f'setup done in {time.time() - t0:.0f}s')
    return 0


if __name__ == '__main__':
    sys.exit(main())
