"""./check <Cnn> [--tier quick|thorough] [--replay <path>]"""
import argparse, importlib, json, os, subprocess, sys
from . import core


def replay(path):
    """re-run a replay directory written by an earlier run; exit 1 when it still reproduces"""
    meta = json.load(open(os.path.join(path, 'replay.json')))
    kind = meta.get('kind', 'native')
    if kind == 'compile':
        r = subprocess.run(['cargo', 'check', '--offline', '--target-dir', os.path.join(core.CACHE, 'x-replay-target')],
                           cwd=path, capture_output=True, text=True)
        print(r.stderr[-3000:])
        print('REPRODUCED (does not compile)' if r.returncode != 0 else 'NOT REPRODUCED (compiles)')
        return 1 if r.returncode != 0 else 0
    if kind == 'smir':
        from smir import replay as sreplay
        return sreplay.replay_dir(path)
    from xeng import replay as xr
    res = xr.run_native(path)
    print(res)
    return 1 if (res['dev'][0] or res['release'][0]) else 0


def main():
    ap = argparse.ArgumentParser()
    ap.add_argument('prop')
    ap.add_argument('--tier', default=os.environ.get('VERIF_TIER', 'quick'))
    ap.add_argument('--replay')
    a = ap.parse_args()
    if a.replay:
        sys.exit(replay(a.replay))
    seed = int(os.environ.get('VERIF_SEED', '1'))
    mod = importlib.import_module('props.' + a.prop.lower())
    out = core.Outcome(a.prop.upper(), a.tier, seed)
    try:
        mod.run(out)
    except Exception as e:  # machinery failure: never a VIOLATION, never a pass
        import traceback
        traceback.print_exc()
        out.inconc(f'machinery error: {type(e).__name__}: {e}')
    sys.exit(core.finish(out))


if __name__ == '__main__':
    main()
