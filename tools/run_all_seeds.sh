#!/bin/sh
# every stored seed against the quick check of its own property (sequential: patches are applied to /repo and undone)
cd /verif
# usage: run_all_seeds.sh [glob-of-seed-ids] [summary-file]   (default: all seeds, work/seeds_summary.log)
pat="${1:-*}"
out="${2:-work/seeds_summary.log}"
: > $out
for d in seeded/$pat/; do
  sid=$(basename $d)
  prop=$(python3 -c "import json;print(json.load(open('$d/meta.json'))['property'])")
  if ! git -C /repo apply --check "/verif/$d/patch.diff" 2>/dev/null; then echo "$sid $prop PATCH-DOES-NOT-APPLY" >> $out; continue; fi
  git -C /repo apply "/verif/$d/patch.diff"
  ./check $prop --tier quick > work/seedrun_${sid}_${prop}.log 2>&1
  rc=$?
  git -C /repo checkout -- .
  echo "$sid $prop exit=$rc viol=$(grep -c '^VIOLATION' work/seedrun_${sid}_${prop}.log) inconc=$(grep -c '^INCONCLUSIVE' work/seedrun_${sid}_${prop}.log) $(grep -m1 '^  role' work/seedrun_${sid}_${prop}.log | cut -c1-160)" >> $out
done
echo DONE >> $out
