#!/usr/bin/env python3
"""seed_prompt.py <Cnn> <worktree> [focus text]  -> prints the complete task description for a seeding sub-agent.
The sub-agent gets ONLY this text (the property as given in properties.jsonl) and its own scratch worktree - nothing from /verif."""
import json, sys

pid, wt = sys.argv[1], sys.argv[2]
focus = sys.argv[3] if len(sys.argv) > 3 else ''
p = next(json.loads(l) for l in open('/verif/properties.jsonl') if json.loads(l)['id'] == pid)
extra = ''
if focus:
    extra = (f'Focus for this round: {focus}. Earlier rounds already covered the most obvious one-line mutations of the mechanism the property '
             'names, so look for something else: shared helper code, rarely exercised branches, interactions between two options or two input '
             'features. The two changes must differ in kind and live in different functions.\n\n')
print(f'''You are helping to evaluate a verification effort for the Rust crate `entrait` (a proc-macro crate that generates traits and delegating impls from functions, modules, traits and impl blocks). You have your own scratch git worktree of the repository at {wt} (work ONLY there; do not touch /repo, do not look at or touch /verif; there is no network - use `cargo ... --offline`; use `CARGO_TARGET_DIR={wt}/target`). The macro implementation lives in {wt}/entrait_macros/src, the facade crate in {wt}/src, the existing test suite is run by `cd {wt} && cargo test --workspace --no-fail-fast --offline` (40 tests, all pass on the unchanged tree).

Here is a semantic property that the crate is supposed to satisfy:

  id: {p["id"]}
  title: {p["title"]}
  statement: {p["statement"]}
  quantifier: {p["quantifier"]["text"]}
  why the existing tests cannot settle it: {p["why_tests_cant"]}

Your task: produce TWO different, realistic source changes (think: a plausible maintainer mistake or over-eager refactor, a few lines each) to the entrait sources (normally under entrait_macros/src, possibly src/lib.rs) such that, for each change on its own:
  (a) the workspace still compiles and the existing test suite (the command above) still passes, all 40 tests;
  (b) the property above is violated;
  (c) the violation needs something specific to manifest - an unusual input shape, a particular combination of options, a particular arity / pattern / type shape, two same-typed arguments, a multi-item module, a specific attribute placement, etc. - NOT something every ordinary use would expose at once (it must not break the crate's own tests or its examples);
  (d) you can demonstrate it: a small standalone cargo project (a `demo/` client crate with a path dependency on the worktree, `[workspace]` table empty, copy {wt}/Cargo.lock next to its Cargo.toml so it resolves offline) containing a test or a main() that FAILS (test failure, or compile error where the property promises compilation, or the reverse) with the change applied and PASSES without it.

{extra}Do not touch code guarded by `cfg(audunhalland_entrait_verif)` (a recording hook, irrelevant to you). Do not edit the existing tests.

Deliver, under {wt}/seed_out/ : for k in 1,2: `change_k.diff` (output of `git diff` for that change alone, relative to the worktree HEAD, applying cleanly with `git apply` on a clean checkout), `demo_k/` (the demonstration crate, without its target dir), and `notes_k.md` saying in a few lines what the change does, which input it needs in order to manifest, and the exact commands you ran with their outcome for all of: baseline tests with the change (must pass), demo with the change (must fail), demo without the change (must pass). Make sure the worktree itself is left clean (git checkout -- . after producing each diff), and remove {wt}/target and demo target dirs at the end to save disk. In your final answer, summarise each change in 3 lines.''')
