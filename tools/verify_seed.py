#!/usr/bin/env python3
"""verify_seed.py <worktree> <k> <prop> <seed-id> [run|test]
Confirms a seeded change in its scratch worktree: baseline suite passes with it (40 tests), the demo fails with
it and passes without it; then stores patch + demo + meta.json under /verif/seeded/<seed-id>/."""
import json, os, re, shutil, subprocess, sys
wt, k, prop, sid = sys.argv[1], sys.argv[2], sys.argv[3], sys.argv[4]
mode = sys.argv[5] if len(sys.argv) > 5 else 'test'
so = os.path.join(wt, 'seed_out')
diff = os.path.join(so, f'change_{k}.diff')
demo = os.path.join(so, f'demo_{k}')
env = dict(os.environ, CARGO_NET_OFFLINE='true', CARGO_TARGET_DIR=os.path.join(wt, 'target'))
denv = dict(os.environ, CARGO_NET_OFFLINE='true', CARGO_TARGET_DIR=os.path.join(wt, 'target_demo'))

def sh(cmd, cwd, env):
    r = subprocess.run(cmd, cwd=cwd, env=env, capture_output=True, text=True, shell=isinstance(cmd, str))
    return r.returncode, r.stdout + r.stderr

def baseline():
    rc, out = sh(['cargo', 'test', '--workspace', '--no-fail-fast', '--offline'], wt, env)
    passed = sum(int(x) for x in re.findall(r'test result: ok\. (\d+) passed', out))
    failed = sum(int(x) for x in re.findall(r'(\d+) failed', out))
    return rc, passed, failed, out

def rundemo():
    cmd = ['cargo', 'test', '--offline', '--no-fail-fast'] if mode == 'test' else ['cargo', 'run', '--offline']
    rc, out = sh(cmd, demo, denv)
    return rc, out

assert sh(['git', 'status', '--porcelain', '--untracked-files=no'], wt, env)[1].strip() == '', 'worktree dirty'
rc, out = sh(['git', 'apply', diff], wt, env)
assert rc == 0, out
try:
    brc, passed, failed, bout = baseline()
    drc_with, dout_with = rundemo()
finally:
    sh(['git', 'checkout', '--', '.'], wt, env)
drc_without, dout_without = rundemo()
ok = (brc == 0 and passed == 40 and failed == 0 and drc_with != 0 and drc_without == 0)
print(f'{sid}: baseline rc={brc} passed={passed} failed={failed}; demo with change rc={drc_with}; without rc={drc_without} -> {"CONFIRMED" if ok else "REJECTED"}')
if not ok:
    print(bout[-1500:] if brc else '', dout_with[-1500:], dout_without[-1500:])
    sys.exit(1)
dst = os.path.join('/verif/seeded', sid)
if os.path.exists(dst):
    shutil.rmtree(dst)
os.makedirs(dst)
shutil.copy(diff, os.path.join(dst, 'patch.diff'))
shutil.copytree(demo, os.path.join(dst, 'demo'), ignore=shutil.ignore_patterns('target'))
# re-point the demo's path dependency at /repo (where the patch is applied when checks are exercised)
import glob
for ct in glob.glob(os.path.join(dst, 'demo', '**', 'Cargo.toml'), recursive=True):
    s = open(ct).read()
    s = re.sub(r'(entrait\s*=\s*\{[^}]*path\s*=\s*)"[^"]*"', r'\1"/repo"', s)
    open(ct, 'w').write(s)
notes = open(os.path.join(so, f'notes_{k}.md')).read()
shutil.copy(os.path.join(so, f'notes_{k}.md'), os.path.join(dst, 'notes.md'))
json.dump(dict(id=sid, property=prop, needs=notes[:1500], demo_mode=mode,
               confirmed=dict(baseline_tests_passed=passed, baseline_failed=failed, demo_with_change_rc=drc_with, demo_without_change_rc=drc_without),
               ran=['git apply patch.diff (scratch worktree)', 'cargo test --workspace --no-fail-fast --offline', f'demo: cargo {mode} --offline (with change)', 'git checkout -- .', f'demo: cargo {mode} --offline (without change)'],
               detected_by=None),
          open(os.path.join(dst, 'meta.json'), 'w'), indent=1)
print('stored', dst)
