#!/bin/sh
# run_seed.sh <seed-id> <Cnn> [<Cnn> ...]   : apply the seeded patch to /repo, run the quick checks, undo.
sid="$1"; shift
cd /verif
git -C /repo status --porcelain --untracked-files=no | grep -q . && { echo "/repo dirty"; exit 9; }
git -C /repo apply "/verif/seeded/$sid/patch.diff" || exit 9
for p in "$@"; do
  ./check "$p" --tier quick > "/verif/work/seedrun_${sid}_${p}.log" 2>&1
  rc=$?
  echo "SEED $sid check $p -> exit $rc  $(grep -c '^VIOLATION' /verif/work/seedrun_${sid}_${p}.log) violation line(s)"
  grep -m2 -A1 '^VIOLATION' "/verif/work/seedrun_${sid}_${p}.log" | cut -c1-300
done
git -C /repo checkout -- .
