#!/usr/bin/env python3
"""Re-confirm every stored seed on /repo's current HEAD in scratch worktrees under /tmp (N in parallel):
baseline suite passes with the patch (40 tests), demo fails with it and passes without it. Updates meta.json."""
import json, os, re, shutil, subprocess, sys
from concurrent.futures import ThreadPoolExecutor
N = int(sys.argv[1]) if len(sys.argv) > 1 else 3
only = sys.argv[2:] 
seeds = sorted(d for d in os.listdir('/verif/seeded') if os.path.isdir(f'/verif/seeded/{d}') and (not only or d in only))
head = subprocess.run(['git', '-C', '/repo', 'rev-parse', '--short', 'HEAD'], capture_output=True, text=True).stdout.strip()

def sh(cmd, cwd, env=None):
    r = subprocess.run(cmd, cwd=cwd, env=env, capture_output=True, text=True)
    return r.returncode, r.stdout + r.stderr

def worker(idx, chunk):
    wt = f'/tmp/wt_rv{idx}'
    sh(['git', '-C', '/repo', 'worktree', 'remove', '--force', wt], '/')
    rc, out = sh(['git', '-C', '/repo', 'worktree', 'add', '-q', '--detach', wt, 'HEAD'], '/')
    env = dict(os.environ, CARGO_NET_OFFLINE='true', CARGO_TARGET_DIR=f'{wt}/target')
    denv = dict(os.environ, CARGO_NET_OFFLINE='true', CARGO_TARGET_DIR=f'{wt}/target_demo')
    res = []
    for sid in chunk:
        d = f'/verif/seeded/{sid}'
        meta = json.load(open(f'{d}/meta.json'))
        mode = meta.get('demo_mode', 'test')
        demo = f'{wt}/demo_{sid}'
        shutil.rmtree(demo, ignore_errors=True)
        shutil.copytree(f'{d}/demo', demo)
        import glob
        for ct in glob.glob(f'{demo}/**/Cargo.toml', recursive=True):
            s = open(ct).read()
            open(ct, 'w').write(re.sub(r'(entrait\s*=\s*\{[^}]*path\s*=\s*)"[^"]*"', rf'\1"{wt}"', s))
        shutil.copy('/repo/Cargo.lock', f'{demo}/Cargo.lock')
        rc, out = sh(['git', 'apply', f'{d}/patch.diff'], wt)
        if rc != 0:
            res.append((sid, 'PATCH-DOES-NOT-APPLY', out[-300:]))
            continue
        brc, bout = sh(['cargo', 'test', '--workspace', '--no-fail-fast', '--offline'], wt, env)
        passed = sum(int(x) for x in re.findall(r'test result: ok\. (\d+) passed', bout))
        cmd = ['cargo', 'test', '--offline', '--no-fail-fast'] if mode == 'test' else ['cargo', 'run', '--offline']
        drc_with, dout_with = sh(cmd, demo, denv)
        sh(['git', 'checkout', '--', '.'], wt)
        drc_without, dout_without = sh(cmd, demo, denv)
        ok = brc == 0 and passed == 40 and drc_with != 0 and drc_without == 0
        meta['confirmed_on'] = dict(repo_head=head, baseline_tests_passed=passed, demo_with_change_rc=drc_with, demo_without_change_rc=drc_without, ok=ok)
        json.dump(meta, open(f'{d}/meta.json', 'w'), indent=1)
        res.append((sid, 'CONFIRMED' if ok else 'REJECTED', f'tests={passed} with={drc_with} without={drc_without}' + ('' if ok else ' | ' + (dout_without if drc_without else dout_with)[-400:])))
        shutil.rmtree(demo, ignore_errors=True)
        print(res[-1], flush=True)
    sh(['git', '-C', '/repo', 'worktree', 'remove', '--force', wt], '/')
    return res

chunks = [seeds[i::N] for i in range(N)]
with ThreadPoolExecutor(N) as ex:
    allres = list(ex.map(lambda a: worker(*a), enumerate(chunks)))
print('DONE', sum(1 for r in allres for x in r if x[1] == 'CONFIRMED'), 'of', len(seeds))
