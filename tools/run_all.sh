#!/bin/sh
# run_all.sh <tier> <tag>: every registered check once, sequentially; logs under work/
tier="${1:-quick}"; tag="${2:-all}"
cd /verif
: > work/${tag}_summary.log
for p in C01 C02 C03 C04 C05 C06 C07 C08 C09 C10 C11 C12 C13 C14 C15 C16 C17 C18 C19 C20; do
  s=$(date +%s)
  ./check $p --tier $tier > work/${tag}_$p.log 2>&1
  rc=$?
  e=$(date +%s)
  echo "$p exit $rc $((e-s))s  viol=$(grep -c '^VIOLATION' work/${tag}_$p.log) known=$(grep -c '^KNOWN-FINDING' work/${tag}_$p.log) inconc=$(grep -c '^INCONCLUSIVE' work/${tag}_$p.log)" >> work/${tag}_summary.log
done
