#!/usr/bin/env python3
"""par_seeds.py [--workers N] [--out FILE] [--all-own | seed-id:Cnn[,Cnn..] ...]

Development aid: runs seeded changes against checks in parallel WITHOUT touching /repo. Every worker owns a scratch clone
of /repo (HEAD) under /tmp, applies one seed's patch there and runs `./check` with VERIF_REPO / VERIF_WORK / VERIF_CACHE /
VERIF_EVIDENCE pointing at its own scratch directories (the registered commands never set these variables: they always
run against /repo and write /verif/evidence). Logs: /verif/work/seedrun_<seed>_<Cnn>.log as for tools/run_seed.sh.
All scratch directories are removed at the end."""
import glob, json, os, queue, re, shutil, subprocess, sys, threading, time

VERIF = '/verif'


def main():
    args = sys.argv[1:]
    workers, out, jobs = 4, '/verif/work/par_seeds_summary.log', []
    while args:
        a = args.pop(0)
        if a == '--workers':
            workers = int(args.pop(0))
        elif a == '--out':
            out = args.pop(0)
        elif a == '--all-own':
            for d in sorted(glob.glob(f'{VERIF}/seeded/*/')):
                sid = os.path.basename(d.rstrip('/'))
                meta = json.load(open(d + 'meta.json'))
                if meta.get('obsolete'):
                    continue   # healed by a later fix: in /repo; kept for the record
                jobs.append((sid, meta['property']))
        else:
            sid, props = a.split(':')
            cands = glob.glob(f'{VERIF}/seeded/{sid}*/')
            assert len(cands) == 1, (sid, cands)
            for p in props.split(','):
                jobs.append((os.path.basename(cands[0].rstrip('/')), p))
    q = queue.Queue()
    for j in jobs:
        q.put(j)
    lock = threading.Lock()
    open(out, 'w').close()

    def worker(w):
        repo, work, cache, evid = (f'/tmp/vr_{w}', f'/tmp/vw_{w}', f'/tmp/vc_{w}', f'/tmp/ve_{w}')
        for d in (repo, work, cache, evid):
            shutil.rmtree(d, ignore_errors=True)
        subprocess.run(['git', 'clone', '--quiet', '/repo', repo], check=True)
        shutil.copy('/repo/Cargo.lock', os.path.join(repo, 'Cargo.lock'))   # not tracked by git
        for d in (work, cache, evid):
            os.makedirs(d)
        env = dict(os.environ, VERIF_REPO=repo, VERIF_WORK=work, VERIF_CACHE=cache, VERIF_EVIDENCE=evid)
        try:
            while True:
                try:
                    sid, prop = q.get_nowait()
                except queue.Empty:
                    return
                subprocess.run(['git', '-C', repo, 'checkout', '--quiet', '--', '.'], check=True)
                patch = f'{VERIF}/seeded/{sid}/patch.diff'
                r = subprocess.run(['git', '-C', repo, 'apply', patch], capture_output=True, text=True)
                log = f'{VERIF}/work/seedrun_{sid}_{prop}.log'
                if r.returncode != 0:
                    line = f'{sid} {prop} PATCH-DOES-NOT-APPLY'
                else:
                    t0 = time.time()
                    with open(log, 'w') as f:
                        rc = subprocess.run(['./check', prop, '--tier', 'quick'], cwd=VERIF, env=env, stdout=f, stderr=subprocess.STDOUT).returncode
                    txt = open(log).read()
                    role = re.search(r'^  role=.*', txt, flags=re.M)
                    line = (f'{sid} {prop} exit={rc} viol={len(re.findall(r"^VIOLATION", txt, flags=re.M))} '
                            f'inconc={len(re.findall(r"^INCONCLUSIVE", txt, flags=re.M))} {int(time.time() - t0)}s {(role.group(0)[:160] if role else "")}')
                with lock:
                    with open(out, 'a') as f:
                        f.write(line + '\n')
        finally:
            for d in (repo, work, cache, evid):
                shutil.rmtree(d, ignore_errors=True)

    ts = [threading.Thread(target=worker, args=(w,)) for w in range(workers)]
    for t in ts:
        t.start()
    for t in ts:
        t.join()
    with open(out, 'a') as f:
        f.write('DONE\n')


if __name__ == '__main__':
    main()
