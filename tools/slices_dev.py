import sys, time, json
sys.path.insert(0,'/verif')
from smir import runner
from props import slices
tier = 'quick'
names = sys.argv[1:]
if names and names[0] in ('quick','thorough'):
    tier = names[0]; names = names[1:]
sl = [s for s in slices.all_slices(tier) if s['name'].split('#')[0] in names or s['name'] in names or any(s['name'].startswith(n) for n in names if n.endswith('/'))]
from smir import setup as ssetup
mir,_=ssetup.dump_mir('/repo'); open('/verif/work/mir.txt','w').write(mir)
t=time.time()
res = runner.run_slices('/verif/work/mir.txt','/repo',sl,None,200000,400,procs=16)
for r in res:
    print("%-34s paths=%6d wall=%6.1fs trunc=%s kinds=%s" % (r['name'], r['paths'], r['wall'], r['truncated'], r['kinds']))
    if r['error']: print('   ERROR', r['error'][:1500])
    for role,f in r['failures'].items(): print('   FAIL', role, f['count'], '|', f['detail'][:260], '|', (f['case'] or {}).get('attr_src'), '|', (f['case'] or {}).get('item_src','')[:200], (f['case'] or {}).get('error',''))
    for k,v in list(r['unsupported'].items())[:5]: print('   UNSUP', v, k[:400])
    for k,v in list(r['panics'].items())[:3]: print('   PANIC', v['count'], k, v['where'])
    print('   rejections', dict(list(r['errs'].items())[:8]))
