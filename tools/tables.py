#!/usr/bin/env python3
"""Generates the two tables of DESIGN.md section 12 from the machinery itself:
  work/prop_table.md  - per property: Engine-X corpora and Engine-S slices (quick; thorough-only ones marked)
  work/seed_table.md  - per seeded change: the check(s) that report it and the deciding role (from work/seeds_summary.log
                        and the per-seed logs written by tools/run_all_seeds.sh / tools/run_seed.sh)"""
import glob, json, os, re, sys
sys.path.insert(0, '/verif')
from props import sprops


def prop_table():
    rows = ['| | Engine X corpora (`xeng/progs*.py`) | Engine S slices (`props/slices.py`) |', '|---|---|---|']
    for n in range(1, 21):
        p = f'C{n:02d}'
        src = open(f'/verif/props/{p.lower()}.py').read()
        xs = []
        for m in re.finditer(r'dict\(fn=progs\d?\.(\w+), name=\'(\w+)\'([^)]*)\)', src):
            flags = []
            rest = m.group(3)
            if 'compile_only=True' in rest:
                flags.append('compile only')
            if 'compile_violation=True' in rest:
                flags.append('any compile failure = violation')
            else:
                flags.append('rustc-coded compile failure = violation')
            if 'unimock=True' in rest:
                flags.append('unimock feature')
            if 'tests=True' in rest:
                flags.append('cfg(test)')
            if 'kani_extra' in rest:
                flags.append('-Z stubbing')
            xs.append(m.group(1) + ' (' + ', '.join(flags) + ')')
        if p == 'C20':
            xs = ['(determinism replay of sampled invocations on the real macro)']
        q = [s['name'] for s in sprops.slices_for(p, 'quick')]
        t = [s['name'] for s in sprops.slices_for(p, 'thorough') if s['name'] not in q]
        sl = ', '.join(q) + (' (+thorough: ' + ', '.join(t) + ')' if t else '')
        rows.append(f'| {p} | {"; ".join(xs) or "—"} | {sl or "—"} |')
    return '\n'.join(rows) + '\n'


def seed_table():
    rows = ['| seeded change | property | reported by (quick tier) | deciding role(s) |', '|---|---|---|---|']
    for d in sorted(glob.glob('/verif/seeded/*/')):
        sid = os.path.basename(d.rstrip('/'))
        meta = json.load(open(d + 'meta.json'))
        hits = []
        for log in sorted(glob.glob(f'/verif/work/seedrun_{sid}_C*.log')):
            prop = log.rsplit('_', 1)[1][:-4]
            txt = open(log).read()
            roles = re.findall(r'^  role=(\S+) engine=(\S+?):', txt, flags=re.M)
            m = re.search(r'exit (\d)', txt.splitlines()[-1] if txt.strip() else '')
            rc = m.group(1) if m else '?'
            if roles:
                engs = sorted({e for _, e in roles})
                first = roles[0][0]
                first = first if len(first) < 90 else first[:87] + '...'
                hits.append((prop, rc, '+'.join(engs), first, len(roles)))
            else:
                hits.append((prop, rc, '', 'exit ' + rc + (' (inconclusive)' if rc == '2' else ' (not reported)'), 0))
        by = '; '.join(f'{p} [{e}]' for p, rc, e, r, n in hits if n) or 'none'
        if meta.get('obsolete'):
            rows.append(f'| {sid} | {meta["property"]} | (obsolete since fix 126868c: the change no longer breaks the property; reported before that fix by its own check) | – |')
            continue
        roles = '; '.join(f'{p}: `{r}`' + (f' (+{n - 1} more)' if n > 1 else '') for p, rc, e, r, n in hits)
        rows.append(f'| {sid} | {meta["property"]} | {by} | {roles} |')
    return '\n'.join(rows) + '\n'


if __name__ == '__main__':
    os.makedirs('/verif/work', exist_ok=True)
    open('/verif/work/prop_table.md', 'w').write(prop_table())
    open('/verif/work/seed_table.md', 'w').write(seed_table())
    d = open('/verif/DESIGN.md').read()
    for tag, f in (('PROP_TABLE', '/verif/work/prop_table.md'), ('SEED_TABLE', '/verif/work/seed_table.md')):
        b, e = f'<!-- {tag}_BEGIN -->', f'<!-- {tag}_END -->'
        if b in d and e in d:
            d = d[:d.index(b) + len(b)] + '\n' + open(f).read() + d[d.index(e):]
    open('/verif/DESIGN.md', 'w').write(d)
