#!/usr/bin/env python3
"""Regenerates MANIFEST.json from the table below (single source of truth for what is claimed)."""
import json, os, subprocess
V = os.path.dirname(os.path.abspath(__file__))
props = [json.loads(l) for l in open(os.path.join(V, 'properties.jsonl'))]

X_NOTE = ('Trusted: Kani 0.68/CBMC 6.11 model of Rust (dev profile, sequential), rustc expanding the generated corpus with the '
          'proc-macro built from /repo. Programs are an enumerated, generated corpus (stated in evidence); within each program '
          'all argument values / application state are symbolic at full width. Counterexamples are replayed natively (dev+release) before being reported.')

S_NOTE = ('Trusted: the nightly compiler\'s MIR dump of entrait_macros (regenerated from /repo on every run), the executor for it (smir/), the environment '
          'models of proc-macro2 / quote / syn data, parse_quote templates and std (listed in evidence.coverage.stubs), the reference spec (smir/spec.py) '
          'written from the property statements, z3. Models are validated on every run by comparing predicted with recorded real expansions on sampled '
          'paths; counterexamples are replayed on the real proc-macro (recorder hook) before being reported. Bounds per slice are in evidence.')
XS = 'Engine X + Engine S. '

def X(t):
    return 'SAT-based bounded model checking of the compiled macro expansions (Kani/CBMC), all argument values symbolic; ' + t

def S(t):
    return 'path-complete symbolic execution of the macro\'s MIR over a lazily initialised symbolic input AST, obligations discharged by z3; ' + t

CLAIMED = {
 'C01': ('model_checking', 'For a generated fn/mod corpus Kani/CBMC decides for every argument tuple and application state that the trait call traces exactly one call of the own function with the receiver as dependency, arguments in declared order and the direct-call result (X). For all fn/mod inputs within the AST bounds the delegating body is `f(self, p1..pn)[.await]` with the generated parameter names in order, own function name, receiver shape per dependency kind (S). A corpus program whose expansion rustc rejects with a coded error is a violation (no method to call); the corpus includes parameters spelled like the fn before / after every pattern kind, raw identifiers (fn name, parameter, only binding of a pattern) and an entraited fn in a block scope next to a same-named module-level fn.',
         X_NOTE + ' ' + S_NOTE, X('call shape per input program decided by symbolic execution of the macro (S)'), 'X+S'),
 'C02': ('other', 'For all fn/mod/impl inputs within the bounds the expansion starts with / contains the input tokens unaltered and in order, generated items only after them (S, back end on AST inputs and front end on symbolic token lists through entrait\'s own item parsers incl. what Input::parse consumes before dispatching). X: reference twins (f == f_ref for all arguments), marker attribute applied exactly once, unsafe fn stays unsafe.',
         S_NOTE + ' ' + X_NOTE, S('item parsers run over symbolic token lists; Kani twins/markers'), 'S+X'),
 'C03': ('other', 'Type-identity half: for all signatures within the bounds the generated method signature equals the input signature under exactly the documented rewrites (receiver, type parameters lifted, dependency predicates removed, patterns -> names, async rewrite), identical in trait and impl; trait and impl headers only name lifetimes they declare (lifetime parameters stay on the method) (S). X: fn-pointer coercion witnesses and compilation of the whole generated corpus are rustc-decided. NOT decided: that every supported signature compiles (borrow checking over an unbounded type language).',
         S_NOTE + ' rustc decides the coercion witnesses.', S('signature identity; rustc-decided coercion witnesses'), 'S+X'),
 'C04': ('other', 'For all ways of declaring <=k dependency bounds (inline / where / impl A+B / split / several module fns), by-ref and by-value deps and all mock settings within the bounds: impl where-clause = exactly the declared bounds, `EntraitT: Sync [+ Send] + \'static`, self type T iff no mock derivation else Impl<T> (S, option values symbolic). Bounds of several fns that share a last path segment without being the same trait (`B0`, `ma::B0`, `B0<u8>`) stay distinct (S, lazily shaped bounds). X: availability probes for application types each missing one bound / auto trait (rustc-decided constants asserted under Kani).',
         S_NOTE, S('bound sets and self type; availability probes rustc-decided'), 'S+X'),
 'C05': ('model_checking', 'Kani/CBMC over expansions of concrete-dependency functions (type shapes ident/path/generic/tuple/array/&\'static): C itself, Impl<C> and a hand-written impl behind Impl<App> - also one written in a sibling module of the library (README Case 1, pub / pub(crate) trait) - traced for all argument values, also with a named lifetime parameter on the dependency reference, as qualified paths next to the other type / const generics of the fn, and unsized (`&[u32]`, `&dyn Trait`); every compile failure of the corpus is a violation (X). Classification of dependency type shapes as concrete, concrete shapes accepted, impl target, nested entrait attribute, and the leaf-trait expansion (default selector, method lifetimes, async) forwarding to T (S).',
         X_NOTE + ' ' + S_NOTE, X('concrete-type classification by S'), 'X+S'),
 'C06': ('model_checking', 'Kani/CBMC over entraited traits for default/ref/Borrow selectors with two providers: every call forwarded once to the selected provider, arguments in order, result unchanged, for all argument values (X). Forwarding call shape, where-clause on T per selector, impl header for all trait shapes within the bounds (S).',
         X_NOTE + ' ' + S_NOTE, X('call shapes / provider bounds by S'), 'X+S'),
 'C07': ('model_checking', 'Kani/CBMC over dependency-inversion programs (static Selector, dynamic ref and Borrow - the application also offers the conversion that was NOT selected, leading to the other target -, two competing targets incl. same-named path targets, implementation fns using further deps incl. two traits with the same last path segment, `async_trait` reached through a re-export): selected block reached once with the same &Impl<T>, never the other (X). Delegation-target trait, selector trait, impl-block expansion and call shapes for all inputs within the bounds (S).',
         X_NOTE + ' ' + S_NOTE, X('impl-block / delegation-target shapes by S'), 'X+S'),
 'C08': ('other', 'Module bodies as symbolic token lists run through entrait\'s own ModItem parser: the items that become trait methods are exactly the visible fns with a body, in source order, compared with a reference classification written from the property (S front end); trait visibility inside the module and re-export (S back end). X: module with every qualifier combination and foreign items, each method traced to its own fn.',
         S_NOTE, S('item classification over symbolic token lists; Kani routing'), 'S+X'),
 'C09': ('other', 'For all trait definitions within the bounds (attrs, vis, unsafe, generics, supertraits, where, <=2 items: methods +- default body +- attrs, associated types) the resulting trait keeps name / vis / unsafety / generics / supertraits / where / attributes / items; only mock derivations added; async rewrite as documented (Output, Send rule); two generics of different kinds in every order; what is written before `trait` (attributes, visibility, unsafe) as symbolic token segments through Input::parse survives parsing and is on the emitted trait (S). X (compile only): programs that only type-check if a where clause on the trait / on sync and async generic methods, supertraits, generics behind a dyn, or `?Send` next to a mock option survived the macro.',
         S_NOTE + ' rustc type-checks the compile-only corpus.', S('trait-preservation obligations; rustc-decided compile-only corpus'), 'S+X'),
 'C10': ('other', 'Full option lattice with symbolic option values x 4 macro entry points x fn/mod/trait: mock derivation present iff enabled (and named for fn/mod), wrapped in cfg_attr(test, ..) iff not exporting, explicit false wins (S). X: `Unimock: Trait` probes in non-test and cfg(test) builds with the unimock feature.',
         S_NOTE, S('option lattice with solver-valued options'), 'S+X'),
 'C11': ('other', 'Attribute-argument half only: unimock path / prefix / api name and shape / unmock_with entries per method in trait-method order (f, _, f(a,b,..)), omitted for entraited traits; no parameter of a TRAIT method is spelled like the fn the un-mock call must reach (S). X (compile only, no Kani): a corpus of mock_api functions / modules / traits incl. parameters spelled like their fn and patterns is type-checked by rustc in a cfg(test) build with the unimock feature, so that the code unimock generates from those arguments is checked against the original functions. NOT decided: the runtime half (mocked / un-mocked calls) - the unimock runtime cannot be compiled by Kani 0.68 (ICE).',
         S_NOTE + ' rustc type-checks the compile-only corpus.', S('unimock attribute parameters; rustc-decided compile-only corpus'), 'S+X'),
 'C12': ('other', 'Async rewrite `-> impl ::core::future::Future<Output = R> [+ ::core::marker::Send]`, Send iff not ?Send, async_trait kept and re-applied to trait / delegation-target trait / impls, `.await` iff async, for fn/mod/trait/impl inputs within the bounds (S). X: futures driven to completion with symbolic arguments, is_send / Output ascription / Rc-under-?Send witnesses rustc-decided.',
         S_NOTE + ' ' + X_NOTE, S('return-type rewrite; Kani completion + rustc witnesses'), 'S+X'),
 'C13': ('other', 'Emitted visibility tokens: fn mode = requested node independent of the fn\'s; module mode pub(super) iff none requested, re-export carries the requested node; delegation-target trait copies the trait\'s for every written target visibility x trait visibility x ref/Borrow/custom delegation; parsing of the visibility before the trait name (S). NOT decided: that rustc then rejects outside uses.',
         S_NOTE, S('visibility nodes'), 'S+X'),
 'C14': ('model_checking', 'Kani with std::alloc::alloc stubbed by a counter: direct call and trait call perform the same number of allocations (sync/async chains, lifetimes, several-bound dependencies, impl Trait return, module, entraited trait also with method lifetimes, static inversion) for symbolic arguments; positive control (X). No macro-originated dyn/Box token on static-delegation paths (S).',
         X_NOTE + ' -Z stubbing of std::alloc::alloc. ' + S_NOTE, X('allocation counter via stubbing; token-level check by S'), 'X+S'),
 'C15': ('other', 'No feasible path from any modelled entry point (back ends on symbolic ASTs, attribute and item parsers on symbolic token lists) ends in a panic; documented misuses end in Err with their message and a span at an input token; unknown / unsupported options rejected (S). NOT decided: "never emits tokens that fail to parse" for arbitrary inputs.',
         S_NOTE, S('panic reachability and diagnostics'), 'S'),
 'C16': ('other', 'Parameter pattern lists <=2 over the pattern alphabet (and <=3 over identifier / wildcard) with ALL identifier spellings as z3 strings (precondition: legal Rust): every generated parameter is a plain identifier, pairwise distinct, none equals the fn name, plain bindings keep their name (S). X: pattern programs compile and forward positionally.',
         S_NOTE, S('identifier spellings as solver strings'), 'S+X'),
 'C17': ('other', 'Attribute lists <=5/7 tokens over the option alphabet run through entrait\'s own Parse impls for fn/mod/trait/impl targets and compared with a reference grammar of the option table: accepted iff documented, parsed struct = as written (bare == true, values, names) (S front end). Metamorphic: for fn / mod / trait inputs with symbolic option presence and values under all four macro names, the expansion equals - token for token, or error for error - the expansion of the canonical spelling (macro `entrait`, variant fallbacks written out, `no_deps = false` / `export = false` dropped), both computed on the same path and compared by z3; counterexamples replayed by expanding both spellings with the real macro (S back ends).',
         S_NOTE, S('attribute parsers over symbolic token lists vs reference grammar; two symbolic executions of the macro per path compared for the metamorphic equalities'), 'S'),
 'C18': ('other', 'Attribute placement for <=2 attrs on fn / module / module fns / trait / trait methods / impl-block fns / parameters: fn attrs only on the fn, generated trait/impl carry only async_trait/automock copies, parameter attrs stripped, trait-method attrs mirrored, cfg on module/impl fns must guard the generated methods (S). X: marker attribute applied exactly once.',
         S_NOTE, S('attribute placement'), 'S+X'),
 'C19': ('other', 'Every macro-originated identifier in every mode / delegation kind is a keyword, a reserved name, an attribute key, a method name after `.`, or a segment of a path rooted at ::entrait / ::core / ::mockall (S). X: corpus in a hostile scope (no imports, local items named Impl/Future/AsRef/Borrow/Box/core/entrait, traits named Sync/Send) compiles and behaves.',
         S_NOTE, S('path-root oracle over token origins'), 'S+X'),
 'C20': ('other', 'Within the bounds no feasible path of the macro reaches an impure primitive (static, thread-local, env, clock, fs, randomness, atomics, hash-order iteration) and no unmodelled callee is assumed pure - identifier spellings symbolic, so that the rename branches are reachable (S); replay: sampled invocations, every input that drives a path into an impure primitive, and fixed multi-bound / renamed-parameter / generic-trait invocations expanded twice in one process, in a fresh process and in reversed order give identical tokens. NOT decided: nondeterminism inside rustc/syn/quote.',
         S_NOTE, S('impure-primitive reachability; determinism replay'), 'S'),
}

NA_REASON = {}
DEFAULT_NA = 'check not built yet (see DESIGN.md section 11 for the build order)'

hook_commit = subprocess.run(['git', '-C', '/repo', 'log', '--format=%h', '--grep', 'verif hook', '-n', '1'], capture_output=True, text=True).stdout.strip()
m = {
 'version': 1,
 'setup_cmd': './setup.sh',
 'hooks': {
  'guard': 'audunhalland_entrait_verif',
  'enable': 'RUSTFLAGS="--cfg audunhalland_entrait_verif" ENTRAIT_VERIF_DUMP=<file> on the client build (reaches the proc-macro crate)',
  'baseline_off_cmd': 'cd /repo && cargo test --workspace --no-fail-fast --offline',
  'source_commits': [hook_commit or 'd0f8096'],
  'add_only': True,
 },
 'engines': [
  {'name': 'X', 'path': 'xeng/', 'serves_properties': [k for k, v in CLAIMED.items() if 'X' in v[4]],
   'kind_free_text': 'Kani 0.68 -> CBMC 6.11 over real macro expansions of a generated corpus; all argument values symbolic; native replay of counterexamples'},
  {'name': 'S', 'path': 'smir/', 'serves_properties': [k for k, v in CLAIMED.items() if 'S' in v[4]],
   'kind_free_text': 'symbolic executor for the MIR of entrait_macros (dumped from /repo by the nightly compiler on every run), lazily initialised symbolic input AST / token lists, z3; replay through the recorder hook'},
 ],
 'checks': [],
 'not_applicable': [],
 'notes': 'See DESIGN.md. ./check <Cnn> [--tier quick|thorough]; exit 0 held, 1 reproduced violation (VIOLATION line), 2 cannot decide (never prints VIOLATION).',
}
for p in props:
    pid = p['id']
    if pid in CLAIMED:
        cat, text, note, tech, eng = CLAIMED[pid]
        m['checks'].append({
            'property_id': pid,
            'quick_cmd': f'./check {pid} --tier quick',
            'thorough_cmd': f'./check {pid} --tier thorough',
            'evidence_file': f'/verif/evidence/{pid}.json',
            'replay_cmd_template': f'./check {pid} --replay {{path}}',
            'engine': eng,
            'level_claimed': {'category': cat, 'text': text, 'design_ref': f'DESIGN.md section 5 ({pid})'},
            'level_note': note,
            'technique': tech,
        })
    else:
        m['not_applicable'].append({'property_id': pid, 'reason': NA_REASON.get(pid, DEFAULT_NA)})
json.dump(m, open(os.path.join(V, 'MANIFEST.json'), 'w'), indent=1)
print('claimed', [c['property_id'] for c in m['checks']])
