#!/usr/bin/env python3
"""Regenerates MANIFEST.json from the table below (single source of truth for what is claimed)."""
import json, os, subprocess
V = os.path.dirname(os.path.abspath(__file__))
props = [json.loads(l) for l in open(os.path.join(V, 'properties.jsonl'))]

X_NOTE = ('Trusted: Kani 0.68/CBMC 6.11 model of Rust (dev profile, sequential), rustc expanding the generated corpus with the '
          'proc-macro built from /repo. Programs are an enumerated, generated corpus (stated in evidence); within each program '
          'all argument values / application state are symbolic at full width. Counterexamples are replayed natively (dev+release) before being reported.')

CLAIMED = {
 # id: (category, text, note, technique, engines)
 'C01': ('model_checking',
         'Bounded model checking (Kani/CBMC) of the real expansions of a generated fn/mod corpus: for every argument tuple and application state the trait call traces exactly one call of the own function with the receiver as dependency, the arguments in declared order, and the direct-call result.',
         X_NOTE, 'SAT-based bounded model checking of compiled macro expansions (Kani), symbolic arguments', 'X'),
 'C05': ('model_checking',
         'Kani/CBMC over expansions of concrete-dependency functions (type shapes ident/path/generic/tuple/array/&\'static): C itself, Impl<C> and a hand-written impl behind Impl<App> are traced for all argument values; availability witnesses (rustc-decided) for Impl<X> without the trait.',
         X_NOTE, 'SAT-based bounded model checking of compiled macro expansions (Kani), symbolic arguments', 'X'),
 'C06': ('model_checking',
         'Kani/CBMC over expansions of entraited traits for the default/ref/Borrow selectors with two provider types: every method call on Impl<T> is traced to exactly one call of the same method on the selected provider with the arguments in order and the result unchanged, for all argument values; provider-availability witnesses are rustc-decided.',
         X_NOTE, 'SAT-based bounded model checking of compiled macro expansions (Kani), symbolic arguments', 'X'),
 'C07': ('model_checking',
         'Kani/CBMC over expansions of dependency-inversion programs (static Selector and dynamic ref delegation, two competing target types, implementation fns using further deps): the call reaches the selected block\'s own function once with the same &Impl<T> and arguments in order, never the other target, for all argument values.',
         X_NOTE, 'SAT-based bounded model checking of compiled macro expansions (Kani), symbolic arguments', 'X'),
}

NA_REASON = {}
DEFAULT_NA = 'check not built yet (see DESIGN.md section 11 for the build order)'

hook_commit = subprocess.run(['git', '-C', '/repo', 'log', '--format=%h', '--grep', 'verif hook', '-n', '1'], capture_output=True, text=True).stdout.strip()
m = {
 'version': 1,
 'setup_cmd': './setup.sh',
 'hooks': {
  'guard': 'audunhalland_entrait_verif',
  'enable': 'RUSTFLAGS="--cfg audunhalland_entrait_verif" ENTRAIT_VERIF_DUMP=<file> on the client build (reaches the proc-macro crate)',
  'baseline_off_cmd': 'cd /repo && cargo test --workspace --no-fail-fast --offline',
  'source_commits': [hook_commit or 'd0f8096'],
  'add_only': True,
 },
 'engines': [
  {'name': 'X', 'path': 'xeng/', 'serves_properties': [k for k, v in CLAIMED.items() if 'X' in v[4]],
   'kind_free_text': 'Kani 0.68 -> CBMC 6.11 over real macro expansions of a generated corpus; all argument values symbolic; native replay of counterexamples'},
 ],
 'checks': [],
 'not_applicable': [],
 'notes': 'See DESIGN.md. ./check <Cnn> [--tier quick|thorough]; exit 0 held, 1 reproduced violation (VIOLATION line), 2 cannot decide (never prints VIOLATION).',
}
for p in props:
    pid = p['id']
    if pid in CLAIMED:
        cat, text, note, tech, eng = CLAIMED[pid]
        m['checks'].append({
            'property_id': pid,
            'quick_cmd': f'./check {pid} --tier quick',
            'thorough_cmd': f'./check {pid} --tier thorough',
            'evidence_file': f'/verif/evidence/{pid}.json',
            'replay_cmd_template': f'./check {pid} --replay {{path}}',
            'engine': eng,
            'level_claimed': {'category': cat, 'text': text, 'design_ref': f'DESIGN.md section 5 ({pid})'},
            'level_note': note,
            'technique': tech,
        })
    else:
        m['not_applicable'].append({'property_id': pid, 'reason': NA_REASON.get(pid, DEFAULT_NA)})
json.dump(m, open(os.path.join(V, 'MANIFEST.json'), 'w'), indent=1)
print('claimed', [c['property_id'] for c in m['checks']])
